import sys
sys.path.insert(0, sys.argv[1] if len(sys.argv)>1 else '/repo')
from pyModelChecking import Kripke, LTL
import random
def gen(rng,d):
    if d==0 or rng.random()<0.2:
        return rng.choice(['p','q',True,False])
    op=rng.choice(['X','F','G','U','R','Not','And','Or'])
    if op in('X','F','G','Not'): return getattr(LTL,op)(gen(rng,d-1))
    return getattr(LTL,op)(gen(rng,d-1),gen(rng,d-1))
rng=random.Random(5)
out=[]
for i in range(120):
    n=rng.randint(1,4)
    S=['s%d'%k for k in range(n)]
    R=[(s,rng.choice(S)) for s in S]+[(rng.choice(S),rng.choice(S)) for _ in range(rng.randint(0,3))]
    L={s:[a for a in 'pq' if rng.random()<.5] for s in S}
    K=Kripke(S,None,R,L)
    f=gen(rng,3)
    if isinstance(f,(bool,str)): f=LTL.Or(f,f)
    try: r=sorted(LTL.modelcheck(K,LTL.A(f)))
    except Exception as e: r=type(e).__name__
    out.append((str(f),sorted(set(R)),L,r))
import hashlib,json
print(hashlib.sha256(json.dumps(out,sort_keys=True).encode()).hexdigest()[:12])
if len(sys.argv)>2:
    json.dump(out,open(sys.argv[2],'w'))
