#!/bin/bash
# False-alarm soak at the current commit: quick tier under four more seeds,
# then a quarter-size thorough tier of the two call-history checks.
export VERIF_SCRATCH_OUT=${VERIF_SCRATCH_OUT:-/tmp/soak2_out}
for s in 11 12 13 14; do for p in C06 C07 C16 C19; do
  VERIF_SEED=$s /venv/bin/python simcheck.py run $p --tier quick | grep -E "SUMMARY|VIOLATION|HARNESS|EXTENSION" | sed "s/^/seed=$s /"
done; done
for p in C19 C07; do
  VERIF_SEED=21 /venv/bin/python simcheck.py run $p --tier thorough --runs 15000 | grep -E "SUMMARY|VIOLATION|HARNESS|EXTENSION|NOTE" | sed "s/^/thorough-quarter /"
done
VERIF_SEED=21 /venv/bin/python simcheck.py run C06 --tier thorough --runs 150000 | grep -E "SUMMARY|VIOLATION|HARNESS|NOTE" | sed "s/^/thorough-quarter /"
VERIF_SEED=21 /venv/bin/python simcheck.py run C16 --tier thorough --runs 40000 | grep -E "SUMMARY|VIOLATION|HARNESS|NOTE" | sed "s/^/thorough-quarter /"
rm -rf $VERIF_SCRATCH_OUT
