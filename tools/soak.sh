#!/bin/bash
# False-alarm soak on the unchanged tree: the quick tier under other seeds,
# then the thorough tier.  Evidence and replays go to a scratch directory.
export VERIF_SCRATCH_OUT=${VERIF_SCRATCH_OUT:-/tmp/soak_out}
for s in 6 7; do for p in C06 C07 C16 C19; do
  VERIF_SEED=$s /venv/bin/python simcheck.py run $p --tier quick | grep -E "SUMMARY|VIOLATION|HARNESS" | sed "s/^/seed=$s /"
done; done
for p in C06 C16 C19 C07; do
  VERIF_SEED=0 /venv/bin/python simcheck.py run $p --tier thorough | grep -E "SUMMARY|VIOLATION|HARNESS|NOTE" | sed "s/^/thorough /"
done
rm -rf $VERIF_SCRATCH_OUT
