#!/bin/bash
# usage: import_mutants.sh <tag e.g. c07_d> -> copies /tmp/<tag>_out/m{1,2} into /verif/seeded/<PROP>-<x>-m{1,2},
# rebases onto /repo HEAD if needed, removes the agent's worktree
t=$1; P=$(echo ${t%_*} | tr a-z A-Z); x=${t#*_}
for m in m1 m2; do
  d=/verif/seeded/${P}-${x}-$m; mkdir -p $d
  cp /tmp/${t}_out/$m/patch.diff /tmp/${t}_out/$m/demo.py /tmp/${t}_out/$m/notes.md $d/ 2>/dev/null
  WT=/tmp/rb_$$; git -C /repo worktree add -q --detach $WT HEAD
  if (cd $WT && git apply --check $d/patch.diff 2>/dev/null); then echo "$d applies";
  else (cd $WT && git apply -3 $d/patch.diff >/dev/null 2>&1 && ! git diff --name-only --diff-filter=U | grep -q . && cp $d/patch.diff $d/patch.orig.diff && git diff HEAD > $d/patch.diff && echo "$d rebased") || echo "$d CONFLICT"; fi
  git -C /repo worktree remove --force $WT
done
git -C /repo worktree remove --force /tmp/wt_$t 2>/dev/null
