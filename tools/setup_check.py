"""MANIFEST.setup_cmd: nothing to build (pure Python, standard library only);
verifies that the interpreter, the repository import and the seams the checks
rely on are present."""
import os, subprocess, sys
sys.path.insert(0, os.environ.get('VERIF_REPO', '/repo'))
import pyModelChecking, lark  # noqa
assert os.path.realpath(pyModelChecking.__file__).startswith(os.path.realpath(os.environ.get('VERIF_REPO', '/repo')))
assert hasattr(os, 'fork') and hasattr(sys, 'settrace')
import gc; assert hasattr(gc, 'freeze')
print('setup ok: python', sys.version.split()[0], 'lark', lark.__version__,
      'setarch', os.path.exists('/usr/bin/setarch'))
