#!/bin/bash
# Final validation at one commit: false-alarm soak (quick tier under four
# seeds, quarter-size thorough tier), then the sensitivity self-test over
# every seeded change.  Scratch output only.
export VERIF_SCRATCH_OUT=${VERIF_SCRATCH_OUT:-/tmp/final_out}
for s in 41 42 43 44; do for p in C06 C07 C16 C19; do
  VERIF_SEED=$s /venv/bin/python simcheck.py run $p --tier quick | grep -E "SUMMARY|VIOLATION|HARNESS|EXTENSION" | sed "s/^/seed=$s /"
done; done
VERIF_SEED=51 /venv/bin/python simcheck.py run C19 --tier thorough --runs 15000 | grep -E "SUMMARY|VIOLATION|HARNESS|EXTENSION|NOTE" | sed "s/^/thorough-quarter /"
VERIF_SEED=51 /venv/bin/python simcheck.py run C07 --tier thorough --runs 15000 | grep -E "SUMMARY|VIOLATION|HARNESS|EXTENSION|NOTE" | sed "s/^/thorough-quarter /"
VERIF_SEED=51 /venv/bin/python simcheck.py run C06 --tier thorough --runs 150000 | grep -E "SUMMARY|VIOLATION|HARNESS|NOTE" | sed "s/^/thorough-quarter /"
VERIF_SEED=51 /venv/bin/python simcheck.py run C16 --tier thorough --runs 40000 | grep -E "SUMMARY|VIOLATION|HARNESS|EXTENSION|NOTE" | sed "s/^/thorough-quarter /"
rm -rf $VERIF_SCRATCH_OUT
unset VERIF_SCRATCH_OUT
/venv/bin/python simcheck.py selftest sensitivity
