#!/bin/bash
# Full thorough tier at the final commit (false-alarm soak, scratch output).
export VERIF_SCRATCH_OUT=${VERIF_SCRATCH_OUT:-/tmp/soak3_out}
for p in C19 C07 C06 C16; do
  VERIF_SEED=31 /venv/bin/python simcheck.py run $p --tier thorough | grep -E "SUMMARY|VIOLATION|HARNESS|EXTENSION|NOTE" | sed "s/^/thorough seed=31 /"
done
rm -rf $VERIF_SCRATCH_OUT
