#!/usr/bin/env python3
"""Generates /verif/MANIFEST.json (kept as a script so that the per-property
texts live in one reviewable place)."""
import json, os
HERE = os.path.dirname(os.path.dirname(os.path.abspath(__file__)))
PY = '/venv/bin/python /verif/simcheck.py'
TECH = 'deterministic simulation with fault injection'

NA = {
 'C01': 'CTL labelling is a deterministic function of (K, f) with per-call state only; exactness needs a semantic reference and input enumeration - there is no schedule, fault or history to simulate (its order-insensitivity is exercised under C06, its call-history independence under C07).',
 'C02': 'LTL tableau exactness is a pure function of its input; the one schedule-like aspect (closure tie order under hash seeds) is C06\'s subject, the rest is input-quantified exactness needing a reference semantics.',
 'C03': 'CTL* exactness is input-quantified; the clone/relabel mechanism\'s side effects are C07\'s subject, its correctness needs a semantic reference over all inputs, not a simulator.',
 'C04': 'Cross-checker agreement and semantic laws are equalities between pure function values over all inputs; no simulator-owned dimension (no schedule, clock, fault or interleaving).',
 'C05': 'Rewriting is a pure syntactic function; equivalence needs a semantic reference over all models.',
 'C08': 'Class-lattice membership and TypeError on construction/cast are pure functions of an operator tree.',
 'C09': 'Print-then-parse round trip is a pure function of a formula; the parser reads a str, not a stream.',
 'C10': 'Parser acceptance/rejection is a pure function of the input string.',
 'C11': '==/hash/clone coherence is a pure relation over pairs of formulas.',
 'C12': 'compute_SCCs is a pure function of the graph; its sensitivity to visiting order is exercised through C06 (seam S1 permutes successor and root order) but exactness against a reference partition is input-quantified.',
 'C13': 'Graph operations are pure functions of (G, X) with no shared or background state.',
 'C14': 'Constructor/clone/substructure outcomes are pure functions of the arguments.',
 'C15': 'Fair semantics is input-quantified exactness needing a reference with Buchi acceptance; only its "does not modify K / no dependence on history" clause has simulation content and that is checked under C07 (calls with F).',
 'C17': 'Apply/restrict correctness is a pure function of (f, g, v, b) once canonicity (C16) holds; it is evaluated as invariant J2 inside C16\'s histories but not claimed separately.',
 'C18': 'Notation equivalence and print/parse round trip are pure functions of an expression (a print/parse precedence defect met while building C16 is recorded in DESIGN.md, not claimed).',
}

CHECKS = {
 'C06': dict(
  text='Seeded search over (a) simulator-chosen iteration orders of every set the checkers build (order seam), (b) presentations of one abstract input - state bijections onto other types, equal-but-distinct state objects per use, shuffled/omitted/duplicated collections in other container types, atom renamings, unreachable padding, initial states, order and container types of the fairness constraints - and (c) real PYTHONHASHSEED values in fresh unpatched interpreters; the oracle is the library\'s own answer under the canonical presentation mapped through the renaming. Seam-only divergences are reported only after real unpatched executions disagree. Sampling, not proof.',
  ref='DESIGN.md 3.1, 5',
  note='Trusted: the harness\' presentation mapping and un-mapping; SimSet explores a superset of CPython\'s iteration orders and is therefore only a candidate generator; known finding KF1 is attributed through its trigger predicate (known_findings.txt); known finding KF2 (an atom renamed to the printed form of a subformula) lies outside the sampled renamings (plain names only) and is re-demonstrated from its witness file on every run. Bounds: <=8 states for CTL, <=6 for CTL*, <=5 for LTL (plus <=2 padding states), depth <=5 (CTL) / <=3, <=3 temporal operators for LTL/CTL*.',
  tech=TECH + ' (scheduler-owned set iteration order + presentation perturbation + PYTHONHASHSEED sweep in fresh interpreters, differential against the canonical execution)'),
 'C07': dict(
  text='Seeded search over call histories on a shared pool of structures, formula objects/texts, fairness lists and parsers, in three configurations: fault-free, fault-injecting (calls cut short by SimAbort/MemoryError/RecursionError at chosen line events inside repository code) and interleaved (a complete second call executed at a chosen line event inside the first); histories include in-place edits of a structure by the caller and formulas whose atoms are named like names the library generated internally (name feedback); after every operation deep snapshots of every argument are compared and every un-faulted call is compared with the same call in a pristine forked process. Sampling, not proof.',
  ref='DESIGN.md 3.2',
  note='Trusted: snapshot walker, fork isolation (the pristine child has imported but never called the library). Faults land on Python line events of repository frames only. Bounds: <=6 states per structure plus an optional 32-45-state structure queried through CTL only, <=~80 operations, <=2 temporal operators for LTL/CTL*.',
  tech=TECH + ' (seeded call histories with line-event abort/exhaustion faults, snapshot invariants and a pristine-process reference)'),
 'C16': dict(
  text='Seeded search over create/combine/drop/GC histories of OBDDs with the collector driven by the simulator (between and inside operations, deferred reclamation through reference cycles, allocation churn); canonicity, unique-table and terminal invariants checked after every step against a truth-table model. Sampling, not proof.',
  ref='DESIGN.md 3.3',
  note='Trusted: the sparse truth-table model (support <=10 variables per function), the diagram walker, CPython 3.12 gc/weakref semantics. Bounds: universes of 4-120 variables, random expressions plus random truth tables over 4-5 variables, 40-400 steps, up to 160 live diagrams, 2-3 orderings (plus ordering storms).',
  tech=TECH + ' (simulator-scheduled garbage collection and deferred reclamation over seeded operation histories, truth-table reference model)'),
 'C19': dict(
  text='Seeded search over call histories with heterogeneous state/label types and the caller-side fault "mutate a returned set, then query again"; after every operation: no internal error on well-formed queries, result is a set of the structure\'s states, sets handed out earlier keep their value, later calls equal the pristine-process outcome and the structure equals its snapshot. Sampling, not proof.',
  ref='DESIGN.md 3.4',
  note='Trusted: as C07. Well-formed = total structure built by the constructor, formula of the called logic, F=None. Bounds as C07.',
  tech=TECH + ' (seeded call/mutate/re-query histories over heterogeneous inputs, ownership and pristine-process invariants)'),
}

m = {
 'version': 1,
 'setup_cmd': '/venv/bin/python /verif/tools/setup_check.py',
 'hooks': {
  'guard': 'PYMODELCHECKING_VERIF',
  'enable': 'no source hook exists: every seam is installed from outside (module-global `set` injection, gc.disable + scheduled gc.collect, sys.settrace, PYTHONHASHSEED of fresh interpreters, fork); simcheck.py exports PYMODELCHECKING_VERIF=1 for uniformity but nothing in /repo reads it, so the shipped behaviour is unchanged by construction',
  'baseline_off_cmd': 'cd /repo && /venv/bin/python -m pytest -ra -q -p no:cacheprovider --timeout=900 --continue-on-collection-errors',
  'source_commits': [],
  'add_only': True,
 },
 'engines': [{
  'name': 'simcheck', 'path': '/verif/simcheck.py',
  'serves_properties': sorted(CHECKS),
  'kind_free_text': 'deterministic simulation: one VERIF_SEED decides every workload, schedule, presentation and fault; fork-per-run isolation from a zygote image; seams = set-iteration order, PYTHONHASHSEED, gc instants, line-event faults; ddmin minimisation; explicit replay files',
 }],
 'checks': [],
 'not_applicable': [{'property_id': k, 'reason': v} for k, v in sorted(NA.items())],
 'notes': 'Two genuine defects were repaired in /repo with "fix:" commits (94ff38b LTL tableau hash-seed dependence; 4776e68 fairness label colliding with a formula atom); two are recorded as known findings KF1 and KF2 (known_findings.txt). See DESIGN.md section 5.',
}
for pid in sorted(CHECKS):
    c = CHECKS[pid]
    m['checks'].append({
     'property_id': pid,
     'quick_cmd': '{} run {} --tier quick'.format(PY, pid),
     'thorough_cmd': '{} run {} --tier thorough'.format(PY, pid),
     'evidence_file': '/verif/evidence/{}.json'.format(pid),
     'replay_cmd_template': PY + ' replay {path}',
     'engine': 'simcheck',
     'level_claimed': {'category': 'exploration', 'text': c['text'], 'design_ref': c['ref']},
     'level_note': c['note'],
     'technique': c['tech'],
    })
json.dump(m, open(os.path.join(HERE, 'MANIFEST.json'), 'w'), indent=1)
print('written')
