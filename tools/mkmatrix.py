#!/usr/bin/env python3
"""Prints the catch matrix (DESIGN.md 9.3) from seeded/*/meta.json and the
latest sensitivity log(s) under selftest_logs/."""
import glob, json, os
HERE = os.path.dirname(os.path.dirname(os.path.abspath(__file__)))
res = {}
for f in sorted(glob.glob(os.path.join(HERE, 'selftest_logs', 'sensitivity-*.jsonl'))):
    for l in open(f):
        if l.startswith('{'):
            r = json.loads(l)
            r['log'] = os.path.basename(f)
            res[r['mutant']] = r
print('| change | what it is | needs | check | result (quick tier) |')
print('|--------|------------|-------|-------|---------------------|')
for d in sorted(glob.glob(os.path.join(HERE, 'seeded', '*'))):
    mp = os.path.join(d, 'meta.json')
    if not os.path.exists(mp):
        continue
    m = json.load(open(mp))
    r = res.get(m['name'])
    by = m.get('caught_by_check') or m['property']
    if m.get('expect') == 'out_of_scope':
        out = 'out of scope, see scope_note in meta.json (breaks a property that is not claimed)'
    elif m.get('expect') == 'extension_finding':
        out = 'reported as EXTENSION-FINDING (interleaved-calls configuration only; exit code unaffected)'
    elif r:
        out = '{} - {} VIOLATION lines, replay reproduces on the patched tree: {}, on /repo: {}'.format(
            r['result'].lower(), r.get('violations'),
            'yes' if r.get('replay_on_mutant_exit') == 1 else 'no',
            'yes' if r.get('replay_on_repo_exit') == 1 else 'no')
    else:
        out = 'caught in a partial run (see 9.4); not yet in a full sensitivity run'
    print('| {} | {} | {} | {} | {} |'.format(m['name'], m['change'], m['needs_to_manifest'], by, out))
