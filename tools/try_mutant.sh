#!/bin/bash
# usage: try_mutant.sh <dir with patch.diff + demo.py> <PROP> [extra simcheck args]
# Applies the patch to a scratch worktree of /repo HEAD (never to /repo), runs
# the repository suite, the demonstration with and without the patch, and the
# property's check against the scratch tree.  Removes the worktree afterwards.
set -u
D=$(realpath "$1"); P=$2; shift 2
WT=/tmp/mutwt_$$; OUT=/tmp/mutout_$$
git -C /repo worktree add -q --detach $WT HEAD || exit 9
( cd $WT && git apply "$D/patch.diff" ) || { echo "PATCH DOES NOT APPLY"; git -C /repo worktree remove --force $WT; exit 9; }
echo "== suite with patch"; ( cd $WT && /venv/bin/python -m pytest -q -p no:cacheprovider 2>&1 | tail -1 )
echo "== demo with patch (expect non-zero)"; ( cd /tmp && timeout 600 /venv/bin/python "$D/demo.py" $WT >/tmp/mutdemo_$$.txt 2>&1; echo "exit=$?"; tail -3 /tmp/mutdemo_$$.txt )
echo "== demo on clean /repo (expect 0)"; ( cd /tmp && timeout 600 /venv/bin/python "$D/demo.py" /repo >/tmp/mutdemo_$$.txt 2>&1; echo "exit=$?"; tail -2 /tmp/mutdemo_$$.txt )
echo "== check $P against patched tree"
( cd /verif && VERIF_REPO=$WT VERIF_SCRATCH_OUT=$OUT timeout 3000 /venv/bin/python simcheck.py run $P "$@" 2>&1 | grep -E "VIOLATION|EXTENSION|KNOWN|SUMMARY|HARNESS|class=" | head -14 )
ls $OUT/replays 2>/dev/null | head -3
git -C /repo worktree remove --force $WT; rm -rf $OUT /tmp/mutdemo_$$.txt
