#!/venv/bin/python
"""simcheck - deterministic simulation checks for pyModelChecking.

    simcheck.py run <C06|C07|C16|C19> [--tier quick|thorough] [--runs N]
                                      [--workers W]
    simcheck.py replay <file>
    simcheck.py selftest determinism|sensitivity [...]

Exit codes: 0 held on everything explored (KNOWN-FINDING lines allowed),
            1 VIOLATION printed, 2 HARNESS-ERROR.
"""

import os
import sys

HERE = os.path.dirname(os.path.abspath(__file__))
REPO = os.environ.get('VERIF_REPO', '/repo')


def _pin_interpreter():
    """Re-exec with PYTHONHASHSEED=0, no bytecode writing and ASLR off, so
    that what the seams do not own is pinned too."""
    if os.environ.get('SIMCHECK_PINNED') == '1':
        return
    env = dict(os.environ)
    env['SIMCHECK_PINNED'] = '1'
    env['PYTHONHASHSEED'] = env.get('SIMCHECK_HASHSEED', '0')
    env['PYTHONDONTWRITEBYTECODE'] = '1'
    env.setdefault('PYMODELCHECKING_VERIF', '1')
    argv = [sys.executable, os.path.abspath(__file__)] + sys.argv[1:]
    setarch = '/usr/bin/setarch'
    if os.path.exists(setarch):
        try:
            import subprocess
            mach = os.uname().machine
            ok = subprocess.call([setarch, mach, '-R', '/bin/true'],
                                 stdout=subprocess.DEVNULL,
                                 stderr=subprocess.DEVNULL) == 0
        except Exception:
            ok = False
        if ok:
            env['SIMCHECK_ASLR'] = 'off'
            os.execve(setarch, [setarch, mach, '-R'] + argv, env)
    env['SIMCHECK_ASLR'] = 'on'
    os.execve(sys.executable, argv, env)


def main():
    _pin_interpreter()
    sys.dont_write_bytecode = True
    sys.path.insert(0, HERE)
    sys.path.insert(0, REPO)
    from sim import cli
    sys.exit(cli.main(sys.argv[1:]))


if __name__ == '__main__':
    main()
