"""Workload generation (ordinary seeded random generation - the simulation
content of the checks is in the schedules, faults and histories, not here).

Abstract Kripke structure: {'n': n, 'E': [[i, j]...], 'lab': [[atom...]...]}
with states 0..n-1, always total.  Formulas are trees (see core).
"""

RESERVED = set(['A', 'E', 'X', 'F', 'G', 'U', 'R', 'not', 'and', 'or',
                'true', 'false'])

ATOM_POOL = ['p', 'q', 'r']

LONG = 'the_request_line_of_the_bus_arbiter_is_asserted_by_client_'
RENAME_POOL = ['x1', 'alpha', 'P_2', 'fair', 'fair0', 'Z', 'a', 'b', 'ok',
               'up', 'down', '_t', 'q0', 'pp', 'AG', 'EX', 'notp', 'orq',
               'trueish', 'p', 'q', 'r', 'e', 'f', 'g', 'u', 'x',
               # long names that differ in the last character only
               LONG + 'a', LONG + 'b', LONG + 'c']
assert len(set(RENAME_POOL)) == len(RENAME_POOL)


def rename_map(rng, atoms):
    """An injective renaming of the given atoms."""
    if rng.random() < 0.12:
        names = [LONG + c for c in 'abcdefgh'[:len(atoms)]]
        rng.shuffle(names)
    else:
        names = rng.sample(RENAME_POOL, len(atoms))
    return dict(zip(atoms, names))


def gen_graph(rng, n, shape):
    E = set()
    if shape == 'selfloops':
        for i in range(n):
            E.add((i, i))
        for _ in range(rng.randint(0, n)):
            E.add((rng.randrange(n), rng.randrange(n)))
    elif shape == 'cycle':
        for i in range(n):
            E.add((i, (i + 1) % n))
        for _ in range(rng.randint(0, n)):
            E.add((rng.randrange(n), rng.randrange(n)))
    elif shape == 'sinks':
        for i in range(n):
            if i == n - 1 or rng.random() < 0.3:
                E.add((i, i))
            else:
                E.add((i, rng.randrange(i + 1, n)))
        for _ in range(rng.randint(0, 2)):
            i = rng.randrange(n)
            E.add((i, rng.randrange(i, n)))
    elif shape == 'twocycles':
        # two cycles (first and second half of the states), every state with
        # a self-loop, the first cycle leading into the second: two fair
        # components that different constraints can tell apart
        h = max(1, n // 2)
        for i in range(n):
            E.add((i, i))
        for i in range(h):
            E.add((i, (i + 1) % h))
        for i in range(h, n):
            E.add((i, h + (i + 1 - h) % (n - h)))
        if n > h:
            E.add((rng.randrange(h), rng.randrange(h, n)))
    elif shape == 'fairfriendly':
        # every state has a self-loop and lies on a cycle: fair-state sets
        # are non-empty and (known finding KF1 aside) order-independent
        k = rng.randint(1, n)
        for i in range(n):
            E.add((i, i))
        for i in range(k):
            E.add((i, (i + 1) % k))
        for i in range(k, n):
            E.add((i, rng.randrange(n)))
            if rng.random() < 0.5:
                E.add((rng.randrange(k), i))
    elif shape == 'unreach':
        m = max(1, n - 1)
        for i in range(m):
            E.add((i, rng.randrange(m)))
        for i in range(m, n):
            E.add((i, rng.randrange(n)))
        for _ in range(rng.randint(0, 2)):
            E.add((rng.randrange(m), rng.randrange(m)))
    else:
        for i in range(n):
            for _ in range(rng.randint(1, 3)):
                E.add((i, rng.randrange(n)))
    return sorted([list(e) for e in E])


SHAPES = ['random', 'random', 'selfloops', 'cycle', 'sinks', 'unreach']


def gen_abstract_kripke(rng, nmax, atoms, density=None, shape=None):
    n = rng.randint(1, nmax)
    shape = shape or rng.choice(SHAPES)
    density = density if density is not None else rng.choice([0.2, 0.5, 0.8])
    E = gen_graph(rng, n, shape)
    lab = [[a for a in atoms if rng.random() < density] for _ in range(n)]
    return {'n': n, 'E': E, 'lab': lab}


def sccs(n, E):
    """Own SCC routine (Kosaraju) on an abstract graph; independent of the
    library's compute_SCCs."""
    adj = [[] for _ in range(n)]
    radj = [[] for _ in range(n)]
    for a, b in E:
        adj[a].append(b)
        radj[b].append(a)
    seen = [False] * n
    order = []
    for s in range(n):
        if seen[s]:
            continue
        stack = [(s, 0)]
        seen[s] = True
        while stack:
            v, k = stack.pop()
            if k < len(adj[v]):
                stack.append((v, k + 1))
                w = adj[v][k]
                if not seen[w]:
                    seen[w] = True
                    stack.append((w, 0))
            else:
                order.append(v)
    comp = [-1] * n
    c = 0
    for s in reversed(order):
        if comp[s] != -1:
            continue
        stack = [s]
        comp[s] = c
        while stack:
            v = stack.pop()
            for w in radj[v]:
                if comp[w] == -1:
                    comp[w] = c
                    stack.append(w)
        c += 1
    out = [[] for _ in range(c)]
    for v in range(n):
        out[comp[v]].append(v)
    return out


def uniformise_selfloops(rng, n, E):
    """Make self-loops uniform inside every SCC (all or none), keeping the
    relation total.  Used to keep fairness cases out of known finding KF1."""
    Es = set(tuple(e) for e in E)
    for comp in sccs(n, E):
        if len(comp) < 2:
            continue
        if rng.random() < 0.5:
            for v in comp:
                Es.add((v, v))
        else:
            for v in comp:
                Es.discard((v, v))
    return sorted([list(e) for e in Es])


def kf1_trigger(n, E, F):
    """Known finding KF1 trigger: some SCC with more than one node meets
    every constraint of F and has both a node with and without a self-loop."""
    Es = set(tuple(e) for e in E)
    for comp in sccs(n, E):
        if len(comp) < 2:
            continue
        cs = set(comp)
        if all(cs & set(P) for P in F):
            loops = [(v, v) in Es for v in comp]
            if any(loops) and not all(loops):
                return True
    return False


def gen_fairness(rng, n):
    k = rng.choice([1, 1, 2, 3])
    F = []
    for _ in range(k):
        P = sorted(set(rng.randrange(n) for _ in range(rng.randint(1, 2))))
        F.append(P)
    if k > 1 and rng.random() < 0.4:
        # constraints that overlap: one state serves two of them
        s = rng.choice(F[0])
        j = rng.randrange(1, k)
        F[j] = sorted(set(F[j]) | {s})
        if rng.random() < 0.5:
            F[0] = sorted(set(F[0]) | {rng.randrange(n)})
    return F


# ---------------------------------------------------------------------------
# formulas

def _leaf(rng, atoms, pconst=0.12):
    if rng.random() < pconst:
        return ['bool', rng.random() < 0.5]
    return ['ap', rng.choice(atoms)]


def assoc_twin(rng, gen_sub):
    """The same operands once as a flat n-ary and once as a nested and/or,
    joined by another connective: Or(a, b, c) vs Or(a, Or(b, c))."""
    kind = rng.choice(['assoc', 'assoc', 'assoc', 'dneg', 'imply'])
    if kind == 'dneg':
        # x and not not x
        x = [rng.choice(['Or', 'And']), gen_sub(), gen_sub()]
        pair = [x, ['Not', ['Not', x]]]
    elif kind == 'imply':
        # a --> b and (not a) or b
        a, b = gen_sub(), gen_sub()
        pair = [['Imply', a, b], ['Or', ['Not', a], b]]
    else:
        op = rng.choice(['Or', 'And'])
        xs = [gen_sub() for _ in range(3)]
        flat = [op] + xs
        nested = [op, xs[0], [op, xs[1], xs[2]]] if rng.random() < 0.5 \
            else [op, [op, xs[0], xs[1]], xs[2]]
        pair = [flat, nested]
    rng.shuffle(pair)
    return pair


def gen_ctl(rng, depth, atoms, pc=0.12):
    if depth <= 0 or rng.random() < 0.2:
        return _leaf(rng, atoms, pc)
    if depth >= 2 and rng.random() < 0.04:
        a, b = assoc_twin(rng, lambda: gen_ctl(rng, 0, atoms, pc))
        return [rng.choice(['A', 'E']), ['U', a, b]] if rng.random() < 0.5 \
            else ['And', ['Not', a], b]
    k = rng.choice(['Not', 'And', 'Or', 'Imply', 'Q', 'Q', 'Q'])
    if k == 'Not':
        return ['Not', gen_ctl(rng, depth - 1, atoms, pc)]
    if k in ('And', 'Or'):
        return [k] + [gen_ctl(rng, depth - 1, atoms, pc)
                      for _ in range(rng.choice([2, 2, 3]))]
    if k == 'Imply':
        return ['Imply', gen_ctl(rng, depth - 1, atoms, pc),
                gen_ctl(rng, depth - 1, atoms, pc)]
    q = rng.choice(['A', 'E'])
    t = rng.choice(['X', 'F', 'G', 'U', 'R'])
    if t in ('X', 'F', 'G'):
        return [q, [t, gen_ctl(rng, depth - 1, atoms, pc)]]
    return [q, [t, gen_ctl(rng, depth - 1, atoms, pc),
                gen_ctl(rng, depth - 1, atoms, pc)]]


def gen_path(rng, depth, atoms, budget, state_gen=None, pc=0.12):
    """LTL-style path formula with at most budget[0] temporal operators."""
    if depth <= 0 or rng.random() < 0.15:
        if state_gen is not None and rng.random() < 0.3:
            return state_gen()
        return _leaf(rng, atoms, pc)
    if depth >= 2 and budget[0] > 0 and rng.random() < 0.2:
        a, b = assoc_twin(rng, lambda: _leaf(rng, atoms, pc))
        budget[0] -= 1
        k = rng.choice(['U', 'R', 'AndNot', 'AndNot'])
        if k == 'AndNot':
            d = _leaf(rng, atoms, pc)
            return ['And', ['Not', ['U', a, d]], b]
        return [k, a, b]
    ks = ['Not', 'And', 'Or', 'Imply']
    if budget[0] > 0:
        ks += ['X', 'F', 'G', 'U', 'R', 'X', 'F', 'G', 'U', 'R']
    k = rng.choice(ks)
    if k in ('X', 'F', 'G', 'U', 'R'):
        budget[0] -= 1
    if k in ('Not', 'X', 'F', 'G'):
        return [k, gen_path(rng, depth - 1, atoms, budget, state_gen, pc)]
    if k in ('And', 'Or'):
        return [k] + [gen_path(rng, depth - 1, atoms, budget, state_gen, pc)
                      for _ in range(2)]
    return [k, gen_path(rng, depth - 1, atoms, budget, state_gen, pc),
            gen_path(rng, depth - 1, atoms, budget, state_gen, pc)]


def rename_atoms_local(tree, name):
    if tree[0] == 'ap':
        return ['ap', name]
    if tree[0] == 'bool':
        return tree
    return [tree[0]] + [rename_atoms_local(t, name) for t in tree[1:]]


def gen_ltl(rng, depth, atoms, tmax=3, pc=0.12):
    return ['A', gen_path(rng, depth, atoms, [tmax], None, pc)]


def gen_ctls(rng, depth, atoms, tmax=3, qnest=2, pc=0.12):
    """CTL* state formula; `tmax` temporal operators in total."""
    budget = [tmax]

    def state(d, q):
        if d <= 0 or rng.random() < 0.15:
            return _leaf(rng, atoms, pc)
        if q > 0 and d >= 2 and len(atoms) >= 2 and rng.random() < 0.08:
            # the same quantified shape over two different atoms, as in
            # specifications written once per process
            a1, a2 = rng.sample(atoms, 2)
            shape = [rng.choice(['A', 'E']),
                     gen_path(rng, d - 1, ['@'], budget, None, 0.0)]
            f1 = rename_atoms_local(shape, a1)
            f2 = rename_atoms_local(shape, a2)
            return [rng.choice(['And', 'Or']), f1,
                    ['Not', f2] if rng.random() < 0.5 else f2]
        ks = ['Not', 'And', 'Or', 'Imply']
        if q > 0:
            ks += ['Q', 'Q', 'Q', 'Q']
        k = rng.choice(ks)
        if k == 'Not':
            return ['Not', state(d - 1, q)]
        if k in ('And', 'Or'):
            return [k, state(d - 1, q), state(d - 1, q)]
        if k == 'Imply':
            return ['Imply', state(d - 1, q), state(d - 1, q)]
        return [rng.choice(['A', 'E']),
                gen_path(rng, d - 1, atoms, budget,
                         (lambda: state(d - 2, q - 1)), pc)]

    f = state(depth, qnest)
    if f[0] in ('ap', 'bool'):
        f = [rng.choice(['A', 'E']),
             gen_path(rng, depth - 1, atoms, budget, None, pc)]
    return f


def gen_formula(rng, logic, atoms, depth=None, tmax=3, pconst=0.12):
    depth = depth if depth is not None else rng.choice([1, 2, 3, 3, 4])
    if logic == 'CTL':
        return gen_ctl(rng, depth, atoms, pconst)
    if logic == 'LTL':
        return gen_ltl(rng, min(depth, 3), atoms, tmax, pconst)
    return gen_ctls(rng, depth, atoms, tmax, 2, pconst)


# ---------------------------------------------------------------------------
# state families (bijections onto other kinds of state objects)

WORDS = ['idle', 'req', 'crit', 'goal', 'x', 'y', 'zz', 'north', 'S', 'not',
         'A', 'true', 'p', 'fair', '', ' ', 's 1', '(a)', '0', '1']


def state_family(rng, n, kind):
    """n distinct encoded state values of the given kind."""
    from .core import enc_value
    if kind == 'int':
        vals = list(range(n))
    elif kind == 'permint':
        vals = rng.sample(range(-3, 40), n)
    elif kind == 'smallint':
        # small ints around zero, negatives included (valid list indices)
        vals = rng.sample(range(-n - 1, n + 1), n)
    elif kind == 'bigint':
        vals = rng.sample([2 ** 61 - 1, -2 ** 40, 10 ** 12, 7, 2 ** 64 + 3,
                           -1, 255, 65536, 2 ** 61, -2 ** 61, 2 ** 31 - 1,
                           -2 ** 63, 3 * 10 ** 18, 1 << 70], n)
    elif kind == 'str':
        vals = ['s{}'.format(k) for k in rng.sample(range(100), n)]
    elif kind == 'words':
        vals = rng.sample(WORDS, n)
    elif kind == 'tuple':
        vals = [(rng.choice(['a', 'b', 'c']), k)
                for k in rng.sample(range(20), n)]
    elif kind == 'nested':
        vals = [((k, 'n'), (rng.choice(['u', 'v']),))
                for k in rng.sample(range(20), n)]
    elif kind == 'float':
        vals = [k + 0.5 for k in rng.sample(range(20), n)]
    elif kind == 'bytes':
        vals = [bytes([65 + k, 48 + (k % 7)]) for k in rng.sample(range(20), n)]
    elif kind == 'frozenset':
        vals = [frozenset([k, 'm'] if k % 2 else [k])
                for k in rng.sample(range(20), n)]
    elif kind == 'obj':
        return [{'o': 'o{}'.format(k)} for k in rng.sample(range(50), n)]
    elif kind == 'tupobj':
        return [{'t': [{'i': k}, {'o': 'o{}'.format(k)}]}
                for k in rng.sample(range(50), n)]
    elif kind == 'mixed':
        pool = [3, 'three', (3,), 3.5, ('x', 1), 'x', 11, -2, 'S0', (1, 2),
                0.25, 'A', b'3', frozenset([3]), ((3,),), 'true']
        vals = rng.sample(pool, n)
    else:
        raise ValueError(kind)
    return [enc_value(v) for v in vals]


FAMILIES = ['permint', 'smallint', 'str', 'words', 'tuple', 'nested', 'float', 'mixed',
            'obj', 'tupobj', 'bigint', 'bytes', 'frozenset']
