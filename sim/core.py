"""Core of the simulator: seed derivation, the scheduler with its decision log,
canonical JSON / digests, the typed value codec and the formula codec.

Nothing in here draws from a PRNG or reads a clock on a logging path.
"""

import hashlib
import json
import os
import random
import sys

REPO = os.environ.get('VERIF_REPO', '/repo')
VERIF = os.path.dirname(os.path.dirname(os.path.abspath(__file__)))
REPO_PKG = os.path.join(REPO, 'pyModelChecking')


class HarnessError(Exception):
    """Something is wrong with the harness, never with the property."""


class ReplayDivergence(HarnessError):
    pass


# ---------------------------------------------------------------------------
# seeds and digests

def run_seed(verif_seed, prop, tier, i):
    h = hashlib.sha256('{}/{}/{}/{}'.format(verif_seed, prop, tier, i)
                       .encode()).hexdigest()
    return int(h[:16], 16)


def cjson(obj):
    return json.dumps(obj, sort_keys=True, separators=(',', ':'))


def digest(obj):
    return hashlib.sha256(cjson(obj).encode()).hexdigest()[:16]


# ---------------------------------------------------------------------------
# scheduler

class Scheduler(object):
    """Owns every choice of a run.

    mode 'random'  : choices come from the run PRNG and are logged
    mode 'identity': identity permutation / index 0 / False (still logged)
    mode 'replay'  : choices come from a recorded log; `strict` decides
                     whether a question different from the recorded one is a
                     ReplayDivergence or silently answered by the identity.
    """

    def __init__(self, rng=None, mode='identity', log=None, strict=True):
        self.rng = rng
        self.mode = mode
        self.replay = list(log) if log is not None else None
        self.strict = strict
        self.log = []          # [site, n, perm|None]
        self.k = 0
        self.sites = {}
        self.nonidentity = 0
        self.diverged = 0

    def permutation(self, site, n):
        """A permutation of range(n), or None for the identity."""
        perm = None
        if self.mode == 'random':
            p = list(range(n))
            self.rng.shuffle(p)
            if p != list(range(n)):
                perm = p
        elif self.mode == 'replay':
            if self.k < len(self.replay):
                rsite, rn, rperm = self.replay[self.k]
                if rsite == site and rn == n:
                    perm = rperm
                elif self.strict:
                    raise ReplayDivergence(
                        'decision {}: asked ({}, {}), recorded ({}, {})'
                        .format(self.k, site, n, rsite, rn))
                else:
                    self.diverged += 1
            elif self.strict:
                raise ReplayDivergence('decision {}: log exhausted at ({}, {})'
                                       .format(self.k, site, n))
            else:
                self.diverged += 1
        self.k += 1
        self.log.append([site, n, perm])
        self.sites[site] = self.sites.get(site, 0) + 1
        if perm is not None:
            self.nonidentity += 1
        return perm


# ---------------------------------------------------------------------------
# typed values (states, labels)

class Obj(object):
    """A state hashed and compared by identity (a user-defined class without
    __eq__): legal as a Kripke state, and the one kind of value that
    copy.deepcopy does not map to itself."""

    def __init__(self, name):
        self.name = name

    def __repr__(self):
        return 'Obj({})'.format(self.name)

    __str__ = __repr__

    def __hash__(self):
        # equality stays identity; the hash is made a function of the name
        # so that set/dict iteration order does not depend on addresses
        # (replay determinism), which default id-based hashing would do
        return hash(self.name)


_OBJ_REG = {}


def reset_objects():
    _OBJ_REG.clear()


def enc_value(v):
    if isinstance(v, Obj):
        if _OBJ_REG.get(v.name) is not v:
            return {'alien_obj': v.name}
        return {'o': v.name}
    if isinstance(v, bool):
        return {'b': v}
    if isinstance(v, int):
        return {'i': v}
    if isinstance(v, str):
        return {'s': v}
    if isinstance(v, float):
        return {'f': v}
    if isinstance(v, tuple):
        return {'t': [enc_value(x) for x in v]}
    if isinstance(v, frozenset):
        return {'fs': sorted((enc_value(x) for x in v), key=cjson)}
    if isinstance(v, bytes):
        return {'y': v.hex()}
    if v is None:
        return {'n': None}
    raise HarnessError('cannot encode value {!r}'.format(v))


def dec_value(e):
    (k, v), = e.items()
    if k in ('b', 'i', 's', 'f', 'n'):
        return v
    if k == 'o':
        if v not in _OBJ_REG:
            _OBJ_REG[v] = Obj(v)
        return _OBJ_REG[v]
    if k == 't':
        return tuple(dec_value(x) for x in v)
    if k == 'fs':
        return frozenset(dec_value(x) for x in v)
    if k == 'y':
        return bytes.fromhex(v)
    raise HarnessError('cannot decode value {!r}'.format(e))


def fresh_copy(v):
    """An object equal to v but (where the language allows) not identical
    to it."""
    if isinstance(v, Obj) or isinstance(v, bool) or v is None:
        return v
    if isinstance(v, int):
        return int(str(v))
    if isinstance(v, float):
        return float(repr(v))
    if isinstance(v, str):
        return ''.join(list(v)) if len(v) > 1 else v
    if isinstance(v, bytes):
        return bytes(bytearray(v))
    if isinstance(v, tuple):
        return tuple([fresh_copy(x) for x in v])
    if isinstance(v, frozenset):
        return frozenset([fresh_copy(x) for x in v])
    return v


def canon_key(v):
    """A total, hash-independent order on the values a set may hold."""
    if isinstance(v, bool):
        return (0, 'bool', int(v), '')
    if isinstance(v, int):
        return (0, 'int', v, '')
    if isinstance(v, float):
        return (0, 'float', v, '')
    if isinstance(v, tuple):
        return (1, 'tuple', 0, cjson([canon_key(x) for x in v]))
    if isinstance(v, frozenset):
        return (1, 'frozenset', 0,
                cjson(sorted(cjson(canon_key(x)) for x in v)))
    if isinstance(v, bytes):
        return (2, 'bytes', 0, v.hex())
    return (2, type(v).__name__, 0, str(v))


def canon_states(states):
    """Canonical JSON-able form of a collection of states."""
    return sorted((enc_value(s) for s in states), key=cjson)


# ---------------------------------------------------------------------------
# formulas as trees: ["ap", name] | ["bool", b] | [op, child, ...]
# op in Not And Or Imply X F G U R A E ; built with the classes of one logic.

UNARY = ('Not', 'X', 'F', 'G', 'A', 'E')
BINARY = ('Imply', 'U', 'R')
NARY = ('And', 'Or')


def lang_module(name):
    import pyModelChecking
    import pyModelChecking.CTL
    import pyModelChecking.LTL
    import pyModelChecking.CTLS
    return {'CTL': pyModelChecking.CTL, 'LTL': pyModelChecking.LTL,
            'CTLS': pyModelChecking.CTLS}[name]


def build_formula(tree, lang, raw=False):
    """Build a formula object with the classes of one logic.  With raw=True
    the leaves below an operator are passed the way the README does it -
    atoms as plain `str`, constants as plain `bool` - and the operator
    constructors wrap them."""
    L = lang_module(lang) if isinstance(lang, str) else lang
    op = tree[0]
    if op == 'ap':
        return L.AtomicProposition(tree[1])
    if op == 'bool':
        return L.Bool(tree[1])
    args = []
    for t in tree[1:]:
        if raw and t[0] in ('ap', 'bool'):
            args.append(t[1])
        else:
            args.append(build_formula(t, L, raw))
    return getattr(L, op)(*args)


import re as _re

_IDENT = _re.compile(r'^[a-zA-Z_][a-zA-Z_0-9]*$')
_RESERVED = set(['A', 'E', 'X', 'F', 'G', 'U', 'R', 'not', 'and', 'or',
                 'true', 'false'])


def atom_text(a):
    """Text of an atom: bare if identifier-style and not reserved, else
    double-quoted (the grammars accept ESCAPED_STRING atoms); None if the
    name cannot be written (contains a quote, backslash or newline)."""
    if _IDENT.match(a) and a not in _RESERVED:
        return a
    if '"' in a or '\\' in a or '\n' in a or '\r' in a:
        return None
    return '"' + a + '"'


def text_writable(tree):
    return all(atom_text(a) is not None for a in formula_atoms(tree))


def formula_text(tree):
    """Text form in the library's CTL* notation."""
    op = tree[0]
    if op == 'ap':
        return atom_text(tree[1])
    if op == 'bool':
        return 'true' if tree[1] else 'false'
    if op == 'Not':
        return 'not ({})'.format(formula_text(tree[1]))
    if op in ('X', 'F', 'G', 'A', 'E'):
        return '{} ({})'.format(op, formula_text(tree[1]))
    sym = {'And': 'and', 'Or': 'or', 'Imply': '-->', 'U': 'U', 'R': 'R'}[op]
    return '(' + (' ' + sym + ' ').join('({})'.format(formula_text(t))
                                        for t in tree[1:]) + ')'


def snapshot_formula(f):
    """Structure of a formula object taken by walking, not by str(): a flat
    pre-order list (iterative, so that very deep formulas can be
    snapshotted and compared without recursion).  The tree only (classes,
    atom names, constants, child counts): derived attributes such as
    `height` are the library's own business."""
    out = []
    stack = [f]
    while stack:
        g = stack.pop()
        cls = type(g).__module__ + '.' + type(g).__name__
        if hasattr(g, '_value') and not hasattr(g, '_subformula'):
            out.append([cls, 'bool', g._value])
        elif hasattr(g, 'name') and not hasattr(g, '_subformula'):
            out.append([cls, 'ap', g.name])
        else:
            subs = getattr(g, '_subformula', None)
            if subs is None:
                out.append([cls, 'opaque', type(g).__name__])
            else:
                out.append([cls, 'op', len(subs)])
                stack.extend(reversed(list(subs)))
    return out


def build_deep_formula(spec):
    """A formula far deeper than the recursion limit, built iteratively:
    {'logic':..., 'kind': 'X'|'Not', 'n': depth}.  An input on which the
    checkers raise RecursionError part-way through a call."""
    L = lang_module(spec['logic'])
    n = spec['n']
    if spec['kind'] == 'X':
        # (E G p) and A X^n q : the first conjunct is handled (and, in CTL*,
        # labelled) before the deep one is met
        x = L.AtomicProposition('q')
        for _ in range(n):
            x = L.X(x)
        return L.And(L.E(L.G(L.AtomicProposition('p'))), L.A(x))
    x = L.AtomicProposition('p')
    for _ in range(n):
        x = L.Not(x)
    if spec['logic'] == 'LTL':
        return L.A(x)
    return L.And(L.E(L.G(L.AtomicProposition('p'))), x) \
        if spec['logic'] == 'CTLS' else L.And(L.EG(L.AtomicProposition('p')),
                                              x)


def formula_atoms(tree, acc=None):
    if acc is None:
        acc = []
    if tree[0] == 'ap':
        if tree[1] not in acc:
            acc.append(tree[1])
    elif tree[0] != 'bool':
        for t in tree[1:]:
            formula_atoms(t, acc)
    return acc


def rename_atoms(tree, m):
    if tree[0] == 'ap':
        return ['ap', m.get(tree[1], tree[1])]
    if tree[0] == 'bool':
        return tree
    return [tree[0]] + [rename_atoms(t, m) for t in tree[1:]]


def temporal_count(tree):
    if tree[0] in ('ap', 'bool'):
        return 0
    c = 1 if tree[0] in ('X', 'F', 'G', 'U', 'R') else 0
    return c + sum(temporal_count(t) for t in tree[1:])


def tree_size(tree):
    if tree[0] in ('ap', 'bool'):
        return 1
    return 1 + sum(tree_size(t) for t in tree[1:])


# ---------------------------------------------------------------------------
# Kripke specs: {"S": [enc...], "R": [[enc, enc]...], "L": [[enc, [enc...]]...],
#                "S0": [enc...]}   (lists, so that order is explicit)

def build_kripke(spec):
    from pyModelChecking import Kripke
    S = [dec_value(s) for s in spec['S']]
    R = [(dec_value(a), dec_value(b)) for a, b in spec['R']]
    L = {}
    for s, labs in spec['L']:
        L[dec_value(s)] = [dec_value(x) for x in labs]
    S0 = [dec_value(s) for s in spec.get('S0', [])]
    return Kripke(S, S0, R, L)


def build_F(Fspec):
    if Fspec is None:
        return None
    return [set(dec_value(s) for s in P) for P in Fspec]


def snapshot_kripke(K):
    """Deep snapshot of the caller-visible content of a structure.

    Read through the instance attributes rather than through labels()/next():
    an observation must not be an event the implementation can react to (a
    cache invalidated by every labels() call would be hidden by a snapshot
    that calls labels()).  Falls back to the public API if the attributes do
    not exist."""
    nxt = getattr(K, '_next', None)
    lab = getattr(K, '_labels', None)
    if isinstance(nxt, dict) and isinstance(lab, dict):
        states = [enc_value(s) for s in nxt]
        trans = sorted(([enc_value(a), enc_value(b)]
                        for a in nxt for b in set.__iter__(set(nxt[a]))),
                       key=cjson)
        labels = [[enc_value(s),
                   sorted((enc_value(x) for x in set.__iter__(set(lab[s]))),
                          key=cjson)] for s in lab]
        labels.sort(key=cjson)
    else:
        states = [enc_value(s) for s in K.states()]
        trans = sorted(([enc_value(a), enc_value(b)]
                        for a, b in K.transitions_iter()), key=cjson)
        labels = []
        for s in K.states():
            labels.append([enc_value(s),
                           sorted((enc_value(x) for x in K.labels(s)),
                                  key=cjson)])
        labels.sort(key=cjson)
    s0 = sorted((enc_value(s) for s in set.__iter__(set(K.S0))), key=cjson)
    return {'S': states, 'R': trans, 'L': labels, 'S0': s0}


def container_ids(K):
    """Identity of the mutable containers inside a structure."""
    ids = {'_next': id(K._next), '_labels': id(K._labels), 'S0': id(K.S0)}
    ids['next'] = [id(K._next[s]) for s in K._next]
    ids['labels'] = [id(K._labels[s]) for s in K._labels]
    return ids


_HEAP_PAD = []


def normalise_heap(per_class=1500):
    """Exhaust the small-object free lists the process inherited, so that
    which freed block a later allocation reuses depends on the allocations
    and frees of the run itself and not on what the forking process happened
    to free before (pymalloc hands out the blocks of a fresh pool in address
    order and reuses freed blocks last-in-first-out).  The padding stays
    alive for the rest of the process."""
    for size in range(0, 480, 16):
        _HEAP_PAD.append([bytes(size) for _ in range(per_class)])
    class _P(object):
        pass
    objs = [_P() for _ in range(per_class * 2)]
    for o in objs:
        o.a = 1
    _HEAP_PAD.append(objs)
    _HEAP_PAD.append([[] for _ in range(per_class)])
    _HEAP_PAD.append([{} for _ in range(per_class)])
    _HEAP_PAD.append([set() for _ in range(per_class)])


def assert_repo_import():
    import pyModelChecking
    f = os.path.realpath(pyModelChecking.__file__)
    if not f.startswith(os.path.realpath(REPO) + os.sep):
        raise HarnessError('pyModelChecking imported from {} not {}'
                           .format(f, REPO))
