"""Known findings (genuine defects recorded, not repaired).

/verif/known_findings.txt is read, never written.  Each `known:` entry names
a witness file; the witness is executed first and a KNOWN-FINDING line is
printed only if it still fails, so the line disappears when the defect is
repaired.  Attribution of divergences met during the search goes through the
entry's trigger predicate (see c06.kf1_applies), never through this file."""

import json
import os
import re

from . import core
from .runner import run_isolated

FILE = os.path.join(core.VERIF, 'known_findings.txt')


def entries():
    out = []
    if not os.path.exists(FILE):
        return out
    for line in open(FILE):
        line = line.strip()
        if not line or line.startswith('#'):
            continue
        kind, _, rest = line.partition(':')
        kv = dict(re.findall(r'(\w+)=(\S+)', rest))
        out.append({'kind': kind.strip(), 'kv': kv, 'text': rest.strip()})
    return out


def _witness_c06(w):
    from . import c06
    a = c06.evaluate(w['case'], w['a'], True)
    b = c06.evaluate(w['case'], w['b'], True)
    return [a, b]


def witness_lines(prop):
    lines = []
    for e in entries():
        if e['kind'] != 'known' or e['kv'].get('property') != prop:
            continue
        wf = os.path.join(core.VERIF, e['kv']['witness'])
        w = json.load(open(wf))
        if prop == 'C06':
            st, r = run_isolated(_witness_c06, w, 120)
            if st != 'ok':
                raise core.HarnessError('witness {} failed: {}'.format(
                    e['kv'].get('id'), r))
            if r[0]['o'] != r[1]['o'] or r[0].get('fair') != r[1].get('fair'):
                lines.append(
                    'KNOWN-FINDING: property={} id={} {} [witness: answers '
                    '{} vs {}, fair states {} vs {}]'.format(
                        prop, e['kv'].get('id'), w['what'], r[0]['o'],
                        r[1]['o'], r[0].get('fair'), r[1].get('fair')))
    return lines
