"""C16 - equal Boolean functions share one OBDD under every creation / drop /
garbage-collection history.

One run = one history over a pool of OBDD slots and 2-3 variable orderings of
a universe of 4-80 variables.  The simulator owns: the operation sequence,
when a dropped diagram really dies (refcount drop vs. parked in a reference
cycle), and every instant at which the cyclic collector runs - between
operations and at chosen line events *inside* library operations (S4 seam,
sys.settrace).

Reference model: per slot the function its construction history denotes, as a
*sparse truth table* (essential support, table over the support), computed
from the meaning of the operations, never from the diagram.  Two models are
equal iff they are the same pair, whatever the size of the universe.
"""

import gc
import math
import os
import random
import sys

from . import core
from .runner import run_isolated

LINE_SPAN = {'build': 4000, 'combine': 900, 'invert': 600, 'restrict': 400,
             'dnf': 30000, 'bad_build': 4000, 'bad_combine': 50}

MAXSUP = 10          # operations whose result would depend on more variables
                     # than this are skipped (the model stays cheap)


def universe(nv):
    return ['a', 'b', 'c', 'd', 'e', 'f'][:nv] + \
        ['v{}'.format(i) for i in range(6, nv)]


# ---------------------------------------------------------------------------
# the model: a function is (vs, tt) - vs a sorted tuple of variable names it
# essentially depends on, tt its truth table over those (bit k <-> the
# assignment giving vs[j] the value (k >> j) & 1).  Normal form, so equality
# of functions is equality of pairs.

def fn_norm(vs, tt):
    vs = list(vs)
    j = 0
    while j < len(vs):
        n = len(vs)
        lo = hi = 0
        kk = 0
        for k in range(1 << n):
            if not (k >> j) & 1:
                b0 = (tt >> k) & 1
                b1 = (tt >> (k | (1 << j))) & 1
                if b0:
                    lo |= 1 << kk
                if b1:
                    hi |= 1 << kk
                kk += 1
        if lo == hi:
            del vs[j]
            tt = lo
        else:
            j += 1
    return (tuple(vs), tt)


def fn_lift(f, vs2):
    vs, tt = f
    if tuple(vs2) == vs:
        return tt
    idx = [vs2.index(v) for v in vs]
    out = 0
    for k in range(1 << len(vs2)):
        kk = 0
        for j, i in enumerate(idx):
            if (k >> i) & 1:
                kk |= 1 << j
        if (tt >> kk) & 1:
            out |= 1 << k
    return out


def fn_const(b):
    return ((), 1 if b else 0)


def fn_var(v):
    return ((v,), 0b10)


def fn_not(f):
    vs, tt = f
    return (vs, (~tt) & ((1 << (1 << len(vs))) - 1))


def fn_apply(op, f, g):
    """None when the result could depend on more than MAXSUP variables."""
    vs = tuple(sorted(set(f[0]) | set(g[0])))
    if len(vs) > MAXSUP:
        return None
    a = fn_lift(f, vs)
    b = fn_lift(g, vs)
    mask = (1 << (1 << len(vs))) - 1
    if op == '&':
        t = a & b
    elif op == '|':
        t = a | b
    else:
        t = a ^ b
    return fn_norm(vs, t & mask)


def fn_restrict(f, var, val):
    vs, tt = f
    if var not in vs:
        return f
    j = vs.index(var)
    n = len(vs)
    out = 0
    for k in range(1 << n):
        kk = (k | (1 << j)) if val else (k & ~(1 << j))
        if (tt >> kk) & 1:
            out |= 1 << k
    return fn_norm(vs, out)


def fn_json(f):
    return [list(f[0]), '{:x}'.format(f[1])]


# ---------------------------------------------------------------------------
# expressions: ['v', name] ['c', 0|1|True|False] ['~', e] ['not', e]
#              ['&', e, e] ['|', e, e] ['and', e, e, ...] ['or', e, e, ...]

def expr_fn(e):
    op = e[0]
    if op == 'v':
        return fn_var(e[1])
    if op == 'c':
        return fn_const(e[1] in (1, True, '1', 'True'))
    if op in ('~', 'not'):
        return fn_not(expr_fn(e[1]))
    if op == 'tt':
        return fn_norm(e[1], e[2])
    r = expr_fn(e[1])
    for x in e[2:]:
        r = fn_apply('&' if op in ('&', 'and') else '|', r, expr_fn(x))
        if r is None:
            return None
    return r


def expr_text(e):
    op = e[0]
    if op == 'v':
        return e[1]
    if op == 'c':
        return str(e[1])
    if op == '~':
        return '~({})'.format(expr_text(e[1]))
    if op == 'not':
        return '(not ({}))'.format(expr_text(e[1]))
    if op == 'tt':
        return '(' + fn_dnf_text((tuple(e[1]), e[2])) + ')'
    sym = {'&': ' & ', '|': ' | ', 'and': ' and ', 'or': ' or '}[op]
    return '(' + sym.join('({})'.format(expr_text(x)) for x in e[1:]) + ')'


def gen_expr(rng, depth, pool):
    if depth == 0 or rng.random() < 0.25:
        if rng.random() < 0.12:
            return ['c', rng.choice([0, 1, 'True', 'False'])]
        return ['v', rng.choice(pool)]
    op = rng.choice(['~', 'not', '&', '|', '&', '|', 'and', 'or'])
    if op in ('~', 'not'):
        return [op, gen_expr(rng, depth - 1, pool)]
    k = 2 if op in ('&', '|') else rng.choice([2, 2, 3])
    return [op] + [gen_expr(rng, depth - 1, pool) for _ in range(k)]


def fn_dnf_text(f):
    """Canonical sum-of-products text of a model function."""
    vs, tt = f
    n = len(vs)
    if tt == 0:
        return '0'
    if tt == (1 << (1 << n)) - 1:
        return '1'
    terms = []
    for k in range(1 << n):
        if (tt >> k) & 1:
            lits = [v if (k >> j) & 1 else '~' + v for j, v in enumerate(vs)]
            terms.append('(' + ' & '.join(lits) + ')')
    return ' | '.join(terms)


# ---------------------------------------------------------------------------
# plan generation (pure, no library code)

def gen_plan(seed):
    rng = random.Random(seed)
    nv = rng.choice([4, 4, 4, 4, 4, 5, 6, 6, 9, 12, 40, 80, 120])
    VARS = universe(nv)
    norder = rng.choice([2, 2, 2, 3])
    nslots = rng.choice([6, 6, 6, 10])
    crowd = nv >= 40 and rng.random() < 0.7
    if crowd:
        # many small diagrams alive at once over many variables: long parent
        # lists under the terminals, a large unique table
        nslots = nv + rng.choice([20, 40])
    orderings = []
    for _ in range(norder):
        o = list(VARS)
        rng.shuffle(o)
        orderings.append(o)
    if rng.random() < 0.15:
        orderings[1] = list(orderings[0])
    cfg = {
        'nv': nv, 'norder': norder, 'nslots': nslots, 'crowd': crowd,
        'poolsize': rng.choice([2, 3, 4, 4]),
        'steps': rng.randint(180, 300) if crowd else rng.randint(40, 80),
        'midgc_p': rng.choice([0.0, 0.3, 0.6]),
        'midgc_mode': rng.choice(['single', 'single', 'periodic']),
        'period': rng.choice([5, 13, 37]),
        'churn': rng.choice([0, 0, 1]),
        'depth': rng.choice([1, 2]) if crowd else rng.choice([2, 3, 3]),
        'w_drop': rng.choice([1, 2, 3]),
        'w_storm': rng.choice([0, 0, 0, 1]),
        'w_deferred': rng.choice([0, 1, 2, 4]),
        'w_gc': rng.choice([0, 1, 2]),
        'one_ordering': rng.random() < 0.3,
        'w_bad': rng.choice([0, 0, 1]),
        'p_reuse_left': rng.choice([0.0, 0.1, 0.3]),
        'small_exprs': crowd or rng.random() < 0.3,
        'p_infunc': rng.choice([0.0, 0.3, 0.6]),
        # one Ordering object per ordering, shared by every diagram built
        # under it (instead of a fresh list per diagram)
        'shared_orderings': rng.random() < 0.4,
        # an operation abandoned half-way (KeyboardInterrupt-like exception
        # at a line event of BDD.py / OBDD.py); findings that need it are
        # reported as EXTENSION-FINDING only
        'p_abort': rng.choice([0.0, 0.0, 0.0, 0.15]),
        # how much of the history is partial evaluation (cofactor-heavy
        # runs: restrict merges nodes of one level, a path build/apply
        # never take)
        'w_restrict': rng.choice([2, 2, 2, 6, 12]),
        # dense functions (a random truth table over 4-6 variables, written
        # as a sum of products): many nodes per level, so that partial
        # evaluation and apply really merge and split nodes
        'p_dense': rng.choice([0.0, 0.0, 0.0, 0.25, 0.5]),
    }

    def pool():
        return rng.sample(VARS, min(len(VARS), cfg['poolsize']))

    occ = {}      # slot -> ordering index
    built = []    # (expression, ordering index) of earlier builds
    ops = []
    if crowd and rng.random() < 0.7:
        # the usual way to start: one diagram per variable
        oi = rng.randrange(norder)
        vs = [v for v in VARS if rng.random() < rng.choice([0.85, 0.95])]
        vs = vs[:nslots - 10]
        rng.shuffle(vs)
        for k, v in enumerate(vs):
            e = ['v', v] if rng.random() < 0.85 else ['~', ['v', v]]
            ops.append({'k': 'build', 's': k, 'e': e, 'o': oi})
            occ[k] = oi
        cfg['variable_sweep'] = len(vs)
    if not crowd and nv <= 6 and rng.random() < 0.3:
        # the other usual way to start: a diagram per variable under every
        # ordering in use, everything else built by combining them
        cfg['literals_first'] = True
        if nslots < 2 * nv + 2:
            nslots = cfg['nslots'] = 2 * nv + 2
        k = 0
        for oi in range(1 if cfg['one_ordering'] else min(norder, 2)):
            for v in VARS:
                ops.append({'k': 'build', 's': k, 'e': ['v', v], 'o': oi})
                occ[k] = oi
                k += 1
    for step in range(cfg['steps']):
        filling = crowd and len(occ) < nslots - 6
        kinds = [('build', 14 if filling else 4)]
        if occ:
            kinds += [('combine', 12 if cfg.get('literals_first') else 5),
                      ('invert', 2), ('restrict', cfg['w_restrict']),
                      ('dnf', 1), ('bad_combine', cfg['w_bad']),
                      ('drop', 0.5 if filling else
                       (3 if crowd else cfg['w_drop'])),
                      ('drop_deferred', cfg['w_deferred'])]
        if built and norder > 1 and not cfg['one_ordering']:
            # the very same expression text under another ordering
            kinds.append(('rebuild', 1.5))
        kinds.append(('gc', cfg['w_gc']))
        kinds.append(('bad_build', cfg['w_bad']))
        kinds.append(('bad_raw', 0.7 * cfg['w_bad']))
        # ('touch_ordering' - the caller mutating the list handed out by
        # ordering.get_list() - was tried and removed: not a step of the
        # histories the statement quantifies over)
        kinds.append(('ordering_storm', 0.3 * cfg['w_storm']))
        kinds.append(('release_exc', cfg['w_bad']))
        tot = sum(w for _, w in kinds)
        x = rng.uniform(0, tot)
        kind = kinds[-1][0]
        for k, w in kinds:
            if x < w:
                kind = k
                break
            x -= w
        if kind == 'gc' and cfg['w_gc'] == 0:
            kind = 'build'
        if kind in ('bad_build', 'release_exc', 'bad_combine', 'bad_raw',
                    'touch_ordering') and cfg['w_bad'] == 0:
            kind = 'build'
        if kind == 'ordering_storm' and cfg['w_storm'] == 0:
            kind = 'build'
        if filling:
            free = [s for s in range(nslots) if s not in occ]
            slot = rng.choice(free)
        else:
            slot = rng.randrange(nslots)
        op = None
        if kind == 'build':
            oi = 0 if cfg['one_ordering'] else rng.randrange(norder)
            d = cfg['depth']
            if cfg['small_exprs'] and rng.random() < 0.6:
                d = rng.choice([0, 0, 0, 1] if crowd else [0, 1])
            op = {'k': 'build', 's': slot,
                  'e': gen_expr(rng, d, pool()), 'o': oi}
            if not crowd and rng.random() < cfg['p_dense'] and \
                    cfg.setdefault('dense_builds', 0) < 4:
                cfg['dense_builds'] += 1
                kd = min(nv, rng.choice([4, 4, 4, 5]))
                op['e'] = ['tt', sorted(rng.sample(VARS, kd)),
                           rng.getrandbits(1 << kd)]
            occ[slot] = oi
            built.append((op['e'], oi))
            if len(built) > 12:
                built.pop(0)
        elif kind == 'rebuild':
            e, oi0 = rng.choice(built)
            oi = rng.choice([k for k in range(norder) if k != oi0])
            op = {'k': 'build', 's': slot, 'e': e, 'o': oi}
            occ[slot] = oi
        elif kind == 'combine':
            a = rng.choice(sorted(occ))
            same = sorted(s for s in occ
                          if orderings[occ[s]] == orderings[occ[a]])
            b = rng.choice(same)
            op = {'k': 'combine', 's': slot, 'op': rng.choice('&|^'),
                  'a': a, 'b': b}
            occ[slot] = occ[a]
        elif kind in ('invert', 'dnf'):
            a = rng.choice(sorted(occ))
            op = {'k': kind, 's': slot, 'a': a}
            occ[slot] = occ[a]
        elif kind == 'restrict':
            a = rng.choice(sorted(occ))
            # 'u' picks, at execution time, a variable of the operand's
            # support (or, one time in four, any variable of the universe)
            op = {'k': 'restrict', 's': slot, 'a': a,
                  'u': rng.random(), 'any': rng.random() < 0.25,
                  'v': rng.choice(VARS), 'b': rng.choice([0, 1, True, False])}
            occ[slot] = occ[a]
        elif kind == 'bad_build':
            # a user error in the middle of a history: an expression that
            # mentions a variable outside the ordering; the exception (and
            # through its traceback the frames holding partial results) is
            # kept until a later release_exc
            e = gen_expr(rng, cfg['depth'], pool())
            op = {'k': 'bad_build', 'o': rng.randrange(norder),
                  'e': ['&', e, ['v', 'zz']] if rng.random() < 0.5
                  else ['|', ['v', 'zz'], e]}
        elif kind == 'bad_combine':
            a = rng.choice(sorted(occ))
            other = sorted(s for s in occ
                           if orderings[occ[s]] != orderings[occ[a]])
            if other:
                op = {'k': 'bad_combine', 'a': a, 'b': rng.choice(other),
                      'op': rng.choice('&|^')}
            else:
                op = {'k': 'gc'}
        elif kind == 'bad_raw':
            # a user error with raw nodes: a hand-made diagram that does not
            # respect the ordering is offered twice (the second time after
            # the first rejection); if it is ever accepted it becomes an
            # ordinary slot for the conjunction of its two variables
            oi = rng.randrange(norder)
            i1, i2 = sorted(rng.sample(range(len(VARS)), 2))
            op = {'k': 'bad_raw', 's': slot, 'o': oi,
                  'v1': orderings[oi][i1], 'v2': orderings[oi][i2]}
        elif kind == 'touch_ordering':
            if occ:
                op = {'k': 'touch_ordering', 'a': rng.choice(sorted(occ))}
            else:
                op = {'k': 'gc'}
        elif kind == 'release_exc':
            op = {'k': 'release_exc'}
        elif kind == 'ordering_storm':
            # many short-lived diagrams under many distinct orderings (an
            # application that reorders variables), while the pool lives on
            op = {'k': 'ordering_storm', 'n': rng.choice([20, 40, 70]),
                  'seed': rng.getrandbits(32)}
        elif kind in ('drop', 'drop_deferred'):
            a = rng.choice(sorted(occ))
            op = {'k': kind, 's': a}
            del occ[a]
        else:
            op = {'k': 'gc'}
        lib = op['k'] not in ('gc', 'drop', 'drop_deferred', 'release_exc',
                              'ordering_storm', 'touch_ordering', 'bad_raw')
        after_zombie = bool(ops) and ops[-1]['k'] == 'drop_deferred'
        if lib and (rng.random() < cfg['midgc_p'] or
                    (after_zombie and cfg['midgc_p'] > 0 and
                     rng.random() < 0.7)):
            if rng.random() < (max(cfg['p_infunc'], 0.5) if after_zombie
                               else cfg['p_infunc']):
                # the j-th line event inside one function, the function
                # being picked at execution time in proportion to the line
                # events each function of the BDD modules has consumed so
                # far in this run (loop-heavy lookups weigh most)
                op['g'] = ['infunc', rng.random(),
                           max(1, int(math.exp(rng.uniform(0,
                                                           math.log(400)))))]
            elif cfg['midgc_mode'] == 'single' or after_zombie:
                # log-uniform over the typical length of this kind of op
                # (measured: build ~1000 line events, combine ~250, invert
                # and restrict ~120, dnf ~17000), so that the collection
                # can land anywhere inside it
                top = LINE_SPAN.get(op['k'], 500)
                op['g'] = ['at', max(1, int(math.exp(
                    rng.uniform(0, math.log(top)))))]
            else:
                op['g'] = ['every', cfg['period']]
        if lib and 'g' not in op and op['k'] in ('build', 'combine', 'invert',
                                                  'restrict') and \
                rng.random() < cfg['p_abort']:
            top = LINE_SPAN.get(op['k'], 500)
            op['x'] = max(1, int(math.exp(rng.uniform(0, math.log(top)))))
        ops.append(op)
        if op['k'] == 'combine' and 'x' in op and rng.random() < 0.7:
            # after an abandoned combination the user tries again, often
            # with another operator on the same operands
            other = rng.choice([c for c in '&|^' if c != op['op']] +
                               [op['op']])
            s2 = rng.randrange(nslots)
            if s2 not in (op['a'], op['b']):
                ops.append({'k': 'combine', 's': s2, 'op': other,
                            'a': op['a'], 'b': op['b']})
                occ[s2] = occ[op['a']]
        if op['k'] == 'combine' and rng.random() < cfg['p_reuse_left']:
            # the same OBDD object as left operand again, same operator,
            # after the first right operand was dropped and another small
            # diagram was built (address reuse of a dropped root)
            a, b = op['a'], op['b']
            if a != b and a != op['s'] and b != op['s']:
                lit = ['v', rng.choice(VARS)]
                e2 = lit if rng.random() < 0.5 else ['~', lit]
                seq = [{'k': 'drop', 's': b}]
                if rng.random() < 0.6:
                    seq.append({'k': 'drop', 's': op['s']})
                seq.append({'k': 'build', 's': b, 'e': e2, 'o': occ[a]})
                seq.append({'k': 'combine', 's': rng.randrange(nslots),
                            'op': op['op'], 'a': a, 'b': b})
                if seq[-1]['s'] not in (a, b):
                    for o2 in seq:
                        if o2['k'] == 'drop':
                            occ.pop(o2['s'], None)
                        else:
                            occ[o2['s']] = occ[a]
                        ops.append(o2)
    return {'prop': 'C16', 'nv': nv, 'orderings': orderings,
            'churn': cfg['churn'], 'cfg': cfg, 'ops': ops}


# ---------------------------------------------------------------------------
# execution (runs in an isolated child)

class _Junk(object):
    def __init__(self):
        self.a = None
        self.b = None
        self.c = None


class SimAbort(BaseException):
    """Modelled on KeyboardInterrupt: abandons an operation half-way."""


class Violation(Exception):
    def __init__(self, cls, detail):
        Exception.__init__(self, cls + ': ' + detail)
        self.cls = cls
        self.detail = detail


def execute(plan):
    """Execute a plan; returns a JSON-able result.  Must run in a process in
    which the BDD library has never been used."""
    VARS = universe(plan.get('nv', 4))
    import pyModelChecking.BDD.BDD
    import pyModelChecking.BDD.OBDD
    import _weakrefset
    BDDm = sys.modules['pyModelChecking.BDD.BDD']
    OBDDm = sys.modules['pyModelChecking.BDD.OBDD']
    OBDD = OBDDm.OBDD
    BDDNode = BDDm.BDDNode
    core.assert_repo_import()

    traced_files = set()
    for m in (BDDm, OBDDm, _weakrefset):
        f = m.__file__
        traced_files.add(f)
    repo_files = set([BDDm.__file__, OBDDm.__file__])
    gc.disable()
    gc.collect()
    core.normalise_heap()
    gc.freeze()

    orderings = plan['orderings']
    if plan['cfg'].get('shared_orderings'):
        Ordering = sys.modules['pyModelChecking.BDD.ordering'].Ordering
        shared = [Ordering(list(o)) for o in orderings]

        def ordering_arg(oi):
            return shared[oi]
    else:
        def ordering_arg(oi):
            return list(orderings[oi])
    slots = {}        # slot -> [obdd, model function, ordering index, route]
    held_exc = []
    probes = {}
    faults = {'gc_between_ops': 0, 'gc_mid_op': 0, 'drop_refcount': 0,
              'drop_deferred': 0, 'churn': 0}
    step_digests = []
    tail = []
    notes = []
    seen_ids = set()
    dead_ids = set()
    state = {'armed': None, 'count': 0, 'fired': 0, 'in_gc': False,
             'fcount': 0}

    def probe(name, n=1):
        probes[name] = probes.get(name, 0) + n

    NT = BDDm.BDDNonTerminalNode

    def live_nodes():
        return [o for o in gc.get_objects() if isinstance(o, NT)]

    func_lines = {}      # function name -> line events so far in this run
    func_order = []

    def local_trace(frame, event, arg):
        if event == 'line' and state['armed'] is not None \
                and not state['in_gc']:
            state['count'] += 1
            nm = frame.f_code.co_name
            if nm not in func_lines:
                func_lines[nm] = 0
                func_order.append(nm)
            func_lines[nm] += 1
            mode, k = state['armed'][0], state['armed'][1]
            if mode == 'abort':
                if state['count'] >= k and \
                        frame.f_code.co_filename in repo_files:
                    state['armed'] = None
                    raise SimAbort('injected by the simulator')
                return local_trace
            hit = False
            if mode == 'infunc':
                if nm == k:
                    state['fcount'] += 1
                    hit = state['fcount'] == state['armed'][2]
            if hit or (mode == 'at' and state['count'] == k) or \
                    (mode == 'every' and state['count'] % k == 0):
                state['in_gc'] = True
                try:
                    names = set()
                    f = frame
                    while f is not None:
                        if f.f_code.co_filename.endswith('_weakrefset.py'):
                            names.add('weakrefset')
                        names.add(f.f_code.co_name)
                        f = f.f_back
                    freed = gc.collect()
                    state['fired'] += 1
                    faults['gc_mid_op'] += 1
                    if 'weakrefset' in names:
                        probe('gc_inside_weakrefset_frame')
                    for nm in ('find_isomorph', 'apply', 'compute_restrict',
                               '__invert__', '__reset__', '__new__'):
                        if nm in names:
                            probe('gc_inside_' + nm.strip('_'))
                    if freed:
                        probe('objects_collected_mid_operation')
                        for nm in ('find_isomorph', 'weakrefset'):
                            if nm in names:
                                probe('objects_collected_inside_' + nm)
                finally:
                    state['in_gc'] = False
        return local_trace

    def global_trace(frame, event, arg):
        if frame.f_code.co_filename in traced_files:
            return local_trace
        return None

    def evaluate(obdd, vs):
        """Truth table of the diagram over the variables vs, by walking it;
        None if the diagram tests a variable outside vs.  With more than 7
        variables a fixed sample of assignments is used and the result is a
        masked table (second return value = the mask)."""
        t0 = BDDNode(0)
        t1 = BDDNode(1)
        n = len(vs)
        if n <= 7:
            asg = range(1 << n)
            mask = (1 << (1 << n)) - 1
        else:
            r3 = random.Random(n)
            asg = sorted(set([0, (1 << n) - 1] +
                             [r3.randrange(1 << n) for _ in range(64)]))
            mask = 0
            for k in asg:
                mask |= 1 << k
        pos = dict((v, j) for j, v in enumerate(vs))
        tt = 0
        for k in asg:
            node = obdd.root
            hops = 0
            while isinstance(node, NT):
                j = pos.get(node.var)
                if j is None:
                    return None, mask
                node = node.high if (k >> j) & 1 else node.low
                hops += 1
                if hops > len(VARS) + 1:
                    raise Violation('C16/J3-structure',
                                    'path longer than the variable count')
            if node is t1:
                tt |= 1 << k
            elif node is not t0:
                raise Violation('C16/J4-terminals',
                                'diagram bottoms out in a node that is not '
                                'the terminal singleton')
        return tt, mask

    def denotes(s):
        """J2 for one slot: does the diagram evaluate to the model?"""
        ob, fm, oi, _ = slots[s]
        tt, mask = evaluate(ob, fm[0])
        return tt is not None and tt == (fm[1] & mask), tt

    def check_consts(s):
        """Equality with the constants (OBDD.__eq__ accepts 0, 1, False and
        True) must agree with the model as well."""
        ob, fm, oi, _ = slots[s]
        for c, val in ((0, False), (1, True), (False, False), (True, True)):
            want = (fm == fn_const(val))
            try:
                got = (ob == c)
            except Exception:
                probe('comparison_with_constant_raised')
                return
            if bool(got) != want:
                raise Violation(
                    'C16/J1-canonicity',
                    'slot {} denotes {} but (slot == {!r}) is {}'.format(
                        s, fn_json(fm), c, got))

    def check_pair(s, t, eqm):
        oa, fa, oia, ra = slots[s]
        ob, fb, oib, rb = slots[t]
        if orderings[oia] != orderings[oib]:
            return
        eq1 = (oa == ob)
        eq2 = (ob == oa)
        same_root = oa.root is ob.root
        same_fn = (fa == fb)
        if eqm is not None:
            eqm.append([s, t, bool(eq1)])
        if same_fn and ra != rb:
            probe('same_function_by_different_routes')
        if eq1 != eq2:
            raise Violation('C16/J1-canonicity',
                            'equality not symmetric for slots {} {}'
                            .format(s, t))
        if bool(eq1) != same_root:
            raise Violation('C16/J1-canonicity',
                            '== ({}) disagrees with root identity '
                            '({}) for slots {} {}'
                            .format(eq1, same_root, s, t))
        if bool(eq1) != same_fn:
            raise Violation(
                'C16/J1-canonicity',
                'slots {} and {} (one ordering): the construction histories '
                'denote {} and {} ({}), the diagrams print as [{}] and [{}], '
                'but == is {}'.format(
                    s, t, fn_json(fa), fn_json(fb),
                    'the same function' if same_fn else 'different functions',
                    str(oa.root)[:120], str(ob.root)[:120], eq1))

    def check_invariants(step, changed, full):
        # J4 terminal singletons
        if BDDNode(0) is not BDDNode(False) or BDDNode(1) is not BDDNode(True)\
                or BDDNode(0) is BDDNode(1):
            raise Violation('C16/J4-terminals', 'terminal singletons broken')
        keys = sorted(slots)
        eqm = []
        # J1 (canonicity against the model): every pair when `full`, else
        # every pair that involves the slot written by this step (the OBDD
        # objects of the other slots did not change)
        if full:
            for i, s in enumerate(keys):
                for t in keys[i + 1:]:
                    check_pair(s, t, eqm if len(keys) <= 12 else None)
        elif changed is not None and changed in slots:
            for t in keys:
                if t != changed:
                    check_pair(min(changed, t), max(changed, t), eqm)
        if changed is not None and changed in slots:
            check_consts(changed)
        # J2 (denotation)
        mism = []
        for s in (keys if full else
                  [changed] if changed in slots else []):
            ok, tt = denotes(s)
            if not ok:
                mism.append(s)
        # J3 no two live nodes with one (var, low, high); none redundant
        nodes = live_nodes()
        trip = {}
        for n in nodes:
            try:
                key = (n.var, id(n.low), id(n.high))
            except AttributeError:
                continue        # a node under construction cannot be live here
            if n.low is n.high:
                raise Violation('C16/J3-unique-table',
                                'live node with low is high (var {})'
                                .format(n.var))
            if key in trip:
                raise Violation('C16/J3-unique-table',
                                'two live non-terminal nodes share '
                                '(var={}, low, high)'.format(n.var))
            trip[key] = n
        if full:
            try:
                reg = BDDNode.nodes()
            except Exception:
                reg = None
            if reg is not None:
                t2 = set()
                for n in reg:
                    if isinstance(n, NT):
                        key = (n.var, id(n.low), id(n.high))
                        if key in t2:
                            raise Violation('C16/J3-unique-table',
                                            'BDDNode.nodes() lists two '
                                            'nodes with one (var, low, high)')
                        t2.add(key)
            reach = {}
            for s in keys:
                acc = reach.setdefault(tuple(orderings[slots[s][2]]), set())
                stack = [slots[s][0].root]
                while stack:
                    n = stack.pop()
                    if isinstance(n, NT) and id(n) not in acc:
                        acc.add(id(n))
                        stack.append(n.low)
                        stack.append(n.high)
            rs = list(reach.values())
            for i in range(len(rs)):
                for j in range(i + 1, len(rs)):
                    if rs[i] & rs[j]:
                        probe('node_shared_across_orderings')
        ids = set(id(n) for n in nodes)
        for n in nodes:
            if id(n) not in seen_ids and id(n) in dead_ids:
                probe('id_reuse_after_death')
        dead_ids.update(seen_ids - ids)
        seen_ids.clear()
        seen_ids.update(ids)
        mx = 0
        for t in (BDDNode(0), BDDNode(1)):
            for nm in ('f_low', 'f_high'):
                try:
                    mx = max(mx, len(getattr(t, nm)))
                except Exception:
                    pass
        if mx > probes.get('max_parents_of_a_terminal', 0):
            probes['max_parents_of_a_terminal'] = mx
        del nodes, trip
        return eqm, len(ids), mism

    def run_op(i, op):
        k = op['k']
        g = op.get('g')
        made = None
        if k == 'gc':
            gc.collect()
            faults['gc_between_ops'] += 1
            return None
        if k == 'drop':
            if op['s'] in slots:
                del slots[op['s']]
                faults['drop_refcount'] += 1
            return None
        if k == 'ordering_storm':
            r2 = random.Random(op['seed'])
            for _ in range(op['n']):
                o = list(VARS)
                r2.shuffle(o)
                v = r2.choice(o)
                t = OBDD(v if r2.random() < 0.5 else '~' + v, o)
                del t
            faults['ordering_storm'] = faults.get('ordering_storm', 0) + 1
            return None
        if k == 'touch_ordering':
            # the caller plays with a list the library handed out
            if op['a'] in slots:
                try:
                    lst = slots[op['a']][0].ordering.get_list()
                    lst.reverse()
                    faults['caller_mutated_ordering_list'] = \
                        faults.get('caller_mutated_ordering_list', 0) + 1
                except Exception:
                    pass
            return None
        if k == 'bad_raw':
            t0, t1 = BDDNode(0), BDDNode(1)
            inner = BDDNode(op['v1'], t0, t1)
            node = BDDNode(op['v2'], t0, inner)     # v2 above v1: unordered
            got = None
            for attempt in (1, 2):
                try:
                    got = OBDD(node, ordering_arg(op['o']))
                except Exception as e:
                    held_exc.append(e)
                    faults['user_error_mid_history'] = \
                        faults.get('user_error_mid_history', 0) + 1
            del node, inner
            if got is not None:
                # hand-made nodes are not among the operations the statement
                # quantifies over: recorded, the diagram is not kept
                probe('unordered_raw_diagram_accepted')
            del got
            return None
        if k == 'release_exc':
            if held_exc:
                del held_exc[:]
                faults['held_exception_released'] = \
                    faults.get('held_exception_released', 0) + 1
            return None
        if k == 'drop_deferred':
            if op['s'] in slots:
                cell = [slots.pop(op['s'])[0]]
                cell.append(cell)
                del cell
                faults['drop_deferred'] += 1
            return None
        # operations that run library code, possibly with mid-operation GC
        for need in ('a', 'b'):
            if need in op and op[need] not in slots:
                return None     # operand removed by minimisation: no-op
        # the model first: an operation whose result would depend on too
        # many variables is skipped altogether
        fm = None
        if k == 'build':
            fm = expr_fn(op['e'])
        elif k == 'combine':
            A, B = slots[op['a']], slots[op['b']]
            if orderings[A[2]] != orderings[B[2]]:
                return None
            fm = fn_apply(op['op'], A[1], B[1])
        elif k == 'invert':
            fm = fn_not(slots[op['a']][1])
        elif k == 'restrict':
            A = slots[op['a']]
            sup = A[1][0]
            if sup and not op.get('any'):
                var = sup[int(op['u'] * len(sup)) % len(sup)]
            else:
                var = op['v'] if op['v'] in VARS else VARS[0]
            fm = fn_restrict(A[1], var, bool(op['b']))
        elif k == 'dnf':
            fm = slots[op['a']][1]
            if len(fm[0]) > 5:
                return None
        if fm is None and k in ('build', 'combine'):
            probe('operation_skipped_support_too_large')
            return None
        if g is None and op.get('x') is not None:
            g = ['abort', op['x']]
        if g is not None:
            if g[0] == 'infunc':
                # resolve the function by cumulative weight
                def weight(nm):
                    # lookups in a unique table are where a collection
                    # hurts most: a bias, nothing more
                    w = func_lines[nm]
                    low = nm.lower()
                    if any(t in low for t in ('find', 'isomorph', 'lookup',
                                              'unique', 'intern', 'iter')):
                        w *= 6
                    return w
                tot = sum(weight(nm) for nm in func_order)
                name = None
                if tot:
                    x = g[1] * tot
                    for nm in func_order:
                        x -= weight(nm)
                        if x < 0:
                            name = nm
                            break
                state['armed'] = ('infunc', name, g[2])
            else:
                state['armed'] = (g[0], g[1])
            state['count'] = 0
            state['fcount'] = 0
            sys.settrace(global_trace)
        try:
            if k == 'build':
                ob = OBDD(expr_text(op['e']), ordering_arg(op['o']))
                made = [ob, fm, op['o'], 'parse']
            elif k == 'combine':
                A = slots[op['a']]
                B = slots[op['b']]
                if op['op'] == '&':
                    ob = A[0] & B[0]
                elif op['op'] == '|':
                    ob = A[0] | B[0]
                else:
                    ob = A[0] ^ B[0]
                made = [ob, fm, A[2], 'apply']
            elif k == 'invert':
                A = slots[op['a']]
                made = [~A[0], fm, A[2], 'invert']
            elif k == 'restrict':
                A = slots[op['a']]
                made = [A[0].restrict(var, op['b']), fm, A[2], 'restrict']
            elif k == 'bad_build':
                try:
                    OBDD(expr_text(op['e']), ordering_arg(op['o']))
                except Exception as e:
                    held_exc.append(e)
                    faults['user_error_mid_history'] = \
                        faults.get('user_error_mid_history', 0) + 1
                else:
                    # C17's clause, not C16's: recorded only
                    probe('variable_outside_ordering_accepted')
            elif k == 'bad_combine':
                A = slots[op['a']]
                B = slots[op['b']]
                if orderings[A[2]] != orderings[B[2]]:
                    try:
                        if op['op'] == '&':
                            A[0] & B[0]
                        elif op['op'] == '|':
                            A[0] | B[0]
                        else:
                            A[0] ^ B[0]
                    except Exception as e:
                        held_exc.append(e)
                        faults['user_error_mid_history'] = \
                            faults.get('user_error_mid_history', 0) + 1
            elif k == 'dnf':
                A = slots[op['a']]
                made = [OBDD(fn_dnf_text(fm), ordering_arg(A[2])),
                        fm, A[2], 'dnf']
            else:
                raise core.HarnessError('unknown op ' + k)
        except SimAbort:
            faults['operation_aborted'] = faults.get('operation_aborted',
                                                     0) + 1
            made = None
        finally:
            if g is not None:
                sys.settrace(None)
                state['armed'] = None
        if made is not None:
            if isinstance(made[0].root, NT) and id(made[0].root) in seen_ids:
                probe('result_root_already_existed')
            slots[op['s']] = made
            return op['s']
        return None

    result = {'violation': None}
    step = -1
    nops = len(plan['ops'])
    try:
        for step, op in enumerate(plan['ops']):
            if plan.get('churn'):
                junk = [_Junk() for _ in range(7 + (step * 5) % 11)]
                del junk[::2]
                del junk
                faults['churn'] += 1
            changed = None
            try:
                changed = run_op(step, op)
            except Violation:
                raise
            except Exception as e:
                # an operation of a well-formed history raised: no OBDD was
                # obtained, so C16 (a statement about pairs of obtained
                # OBDDs) is not violated by this alone; recorded, the slot
                # keeps its previous content and the history goes on
                probe('operation_raised_' + type(e).__name__)
                notes.append([step, op['k'], type(e).__name__,
                              str(e)[:200]])
            full = len(slots) <= 12 or step % 25 == 24 or step == nops - 1
            eqm, nlive, mism = check_invariants(step, changed, full)
            if mism:
                # the diagram denotes something else than its history: try to
                # witness it as a canonicity failure against a parsed DNF
                probe('denotation_mismatch')
                for s in mism:
                    ob, fm, oi, _ = slots[s]
                    if len(fm[0]) > 6:
                        continue    # no sum-of-products route at this size
                    w = OBDD(fn_dnf_text(fm), ordering_arg(oi))
                    tw, mask = evaluate(w, fm[0])
                    if tw == (fm[1] & mask) and not (w == ob):
                        raise Violation(
                            'C16/J1-canonicity',
                            'slot {} built by {} must denote {} but its '
                            'diagram prints as [{}]; it compares unequal '
                            'to the parsed sum-of-products of that function'
                            .format(s, slots[s][3], fn_json(fm),
                                    str(ob.root)[:160]))
                probe('denotation_mismatch_unwitnessed')
            rec = [op['k'], changed,
                   fn_json(slots[changed][1]) if changed in slots else None,
                   eqm if len(eqm) <= 40 else len(eqm), len(slots)]
            # the live-node count is shown but not digested: with cyclic
            # garbage pending it depends on where a mid-operation collection
            # lands, which follows line-event counts inside address-ordered
            # WeakSet scans (node hashes are addresses)
            step_digests.append(core.digest(rec))
            tail.append(rec + [nlive])
            if len(tail) > 3:
                tail.pop(0)
        # J5 (diagnostic only): nothing but terminals survives
        slots.clear()
        del held_exc[:]
        gc.collect()
        gc.collect()
        left = len(live_nodes())
        if left:
            probe('nodes_left_after_final_collect', left)
    except Violation as v:
        result['violation'] = {'class': v.cls, 'detail': v.detail,
                               'step': step}
    kinds = [op['k'] for op in plan['ops']]
    mxp = probes.pop('max_parents_of_a_terminal', 0)
    if mxp > 64:
        probe('terminal_with_more_than_64_parents')
    if mxp > 16:
        probe('terminal_with_more_than_16_parents')
    result.update({
        'steps': len(step_digests),
        'events_digest': core.digest(step_digests),
        'probes': probes,
        'faults': faults,
        'midgc_fired': state['fired'],
        'nontrivial': bool(
            'combine' in kinds and
            (faults['drop_refcount'] + faults['drop_deferred']) > 0 and
            (faults['gc_between_ops'] + faults['gc_mid_op']) > 0 and
            probes.get('same_function_by_different_routes', 0) > 0),
        'tail': tail,
        'op_exceptions': notes[:5],
    })
    return result


def simpler_ops(op):
    """Simpler alternatives for one op, simplest first (for minimisation)."""
    if 'g' in op:
        o = dict(op)
        del o['g']
        yield o
    if 'x' in op:
        o = dict(op)
        del o['x']
        yield o
    if op['k'] == 'build':
        e = op['e']
        if e[0] == 'tt':
            for v in e[1]:
                for b in (0, 1):
                    vs2, tt2 = fn_restrict((tuple(e[1]), e[2]), v, b)
                    o = dict(op)
                    o['e'] = ['tt', list(vs2), tt2]
                    yield o
        elif e[0] not in ('v', 'c'):
            for sub in e[1:]:
                o = dict(op)
                o['e'] = sub
                yield o
    if op['k'] == 'drop_deferred':
        o = dict(op)
        o['k'] = 'drop'
        yield o


# ---------------------------------------------------------------------------
# job: generate, execute in isolation, minimise and confirm on violation

def _violates(plan, cls, timeout):
    st, res = run_isolated(execute, plan, timeout)
    return st == 'ok' and res['violation'] is not None and \
        res['violation']['class'] == cls, (res if st == 'ok' else None)


def minimise_plan(plan, cls, timeout):
    from .minimise import ddmin, simplify_each

    def test(ops):
        p = dict(plan)
        p['ops'] = ops
        return _violates(p, cls, timeout)[0]

    ops = ddmin(plan['ops'], test, max_tests=250)
    ops = simplify_each(ops, simpler_ops, test, max_tests=120)
    p = dict(plan)
    p['ops'] = ops
    if p.get('churn'):
        q = dict(p)
        q['churn'] = 0
        if _violates(q, cls, timeout)[0]:
            p = q
    return p


def job(ctx, i):
    seed = core.run_seed(ctx['seed'], 'C16', ctx['tier'], i)
    plan = gen_plan(seed)
    st, res = run_isolated(execute, plan, ctx['timeout'])
    if st == 'timeout':
        return {'status': 'timeout'}
    if st != 'ok':
        return {'status': 'harness_error', 'detail': '{} {}'.format(st, res)}
    out = {'status': 'ok', 'evaluations': 1, 'steps': res['steps'],
           'probes': res['probes'], 'faults': res['faults'],
           'digests': [res['events_digest']],
           'nontrivial_digests': [res['events_digest']]
           if res['nontrivial'] else []}
    if res.get('op_exceptions'):
        out['notes'] = {'operation_raised': res['op_exceptions'][0]}
    if i < 2:
        out['sample'] = {'run': i, 'run_seed': seed, 'plan': plan,
                         'last_events': res['tail']}
    v = res['violation']
    if v is not None:
        ctx['nviol'] = ctx.get('nviol', 0) + 1
        if ctx['nviol'] <= 2:
            small = minimise_plan(plan, v['class'], ctx['timeout'])
        else:
            small = plan        # enough minimised examples from this worker
        oks = 0
        detail = v['detail']
        for _ in range(3):
            ok, r = _violates(small, v['class'], ctx['timeout'])
            if ok:
                oks += 1
                detail = r['violation']['detail']
        if oks == 0:
            small, oks = plan, 0
            for _ in range(3):
                ok, r = _violates(small, v['class'], ctx['timeout'])
                oks += 1 if ok else 0
        from .driver import write_replay, cli_replay_reproduces

        def body_for(p, ok_children):
            return {'format': 1, 'property': 'C16',
                    'verif_seed': ctx['seed'], 'tier': ctx['tier'],
                    'run': i, 'run_seed': seed,
                    'interpreter': {'PYTHONHASHSEED': os.environ.get(
                        'PYTHONHASHSEED'), 'aslr': os.environ.get(
                            'SIMCHECK_ASLR', 'unknown')},
                    'violation': {'class': v['class'], 'detail': detail},
                    'plan': p, 'original_ops': len(plan['ops']),
                    'replayed_ok': ok_children}
        path = write_replay('C16', ctx['seed'], ctx['tier'], i,
                            body_for(small, oks))
        # node hashes are addresses: confirm the file in a fresh interpreter
        # as well, and fall back to the unminimised history if only that one
        # reproduces there
        if ctx['nviol'] > 3:
            cli = None           # enough confirmed examples from this worker
        else:
            cli = cli_replay_reproduces(path)
        if cli is False and small is not plan:
            path = write_replay('C16', ctx['seed'], ctx['tier'], i,
                                body_for(plan, oks))
            cli = cli_replay_reproduces(path)
            if cli:
                small = plan
            else:
                path = write_replay('C16', ctx['seed'], ctx['tier'], i,
                                    body_for(small, oks))
        rec_key = 'violations'
        if any('x' in o for o in small['ops']):
            # does it need an abandoned operation?  strip them all and see
            q2 = dict(small)
            q2['ops'] = [dict((a, b) for a, b in o.items() if a != 'x')
                         for o in small['ops']]
            if not _violates(q2, v['class'], ctx['timeout'])[0]:
                rec_key = 'extension'
                out.setdefault('extra', {})['extension_findings'] = 1
        out[rec_key] = [{'class': v['class'], 'detail': detail +
                              ('' if cli is not False else ' [address-dependent: '
                               'reproduced in {} of 3 forked children but '
                               'not in a fresh interpreter]'.format(oks)),
                              'replay': path, 'replayed_ok': oks,
                              'fresh_interpreter_replay': cli,
                              'ops': len(small['ops'])}]
    return out


def replay(body, timeout=300):
    """Re-execute a replay file's plan; returns (reproduced, result)."""
    ok, r = _violates(body['plan'], body['violation']['class'], timeout)
    return ok, r
