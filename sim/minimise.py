"""Delta debugging over lists, driven by a predicate that re-executes a
candidate plan in an isolated child and says whether the same violation class
persists."""


def ddmin(items, test, max_tests=400):
    """Smallest sublist (1-minimal up to the test budget) for which
    test(sublist) is True.  `items` itself is assumed to test True."""
    items = list(items)
    n = 2
    tests = 0
    while len(items) >= 2 and tests < max_tests:
        chunk = max(1, len(items) // n)
        subsets = [items[i:i + chunk] for i in range(0, len(items), chunk)]
        reduced = False
        # try complements (remove one chunk)
        for k in range(len(subsets)):
            cand = [x for j, s in enumerate(subsets) if j != k for x in s]
            tests += 1
            if cand != items and test(cand):
                items = cand
                n = max(n - 1, 2)
                reduced = True
                break
            if tests >= max_tests:
                break
        if not reduced:
            if n >= len(items):
                break
            n = min(len(items), n * 2)
    # final single-element removal pass
    i = 0
    while i < len(items) and tests < max_tests and len(items) > 1:
        cand = items[:i] + items[i + 1:]
        tests += 1
        if test(cand):
            items = cand
        else:
            i += 1
    return items


def simplify_each(items, alternatives, test, max_tests=300):
    """For each position try simpler alternatives (a generator of
    replacement elements, simplest first); keep the first that still fails."""
    items = list(items)
    tests = 0
    for i in range(len(items)):
        changed = True
        while changed and tests < max_tests:
            changed = False
            for alt in alternatives(items[i]):
                tests += 1
                cand = items[:i] + [alt] + items[i + 1:]
                if test(cand):
                    items = cand
                    changed = True
                    break
                if tests >= max_tests:
                    break
    return items
