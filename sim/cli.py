"""Command line of the simulator (invoked through /verif/simcheck.py)."""

import argparse
import json
import os
import sys

from . import core


def _import_library():
    """The zygote state: everything imported, nothing called."""
    import pyModelChecking
    import pyModelChecking.CTL
    import pyModelChecking.LTL
    import pyModelChecking.CTLS
    import pyModelChecking.BDD
    import lark  # noqa
    core.assert_repo_import()


def _ncpu():
    try:
        return len(os.sched_getaffinity(0))
    except Exception:
        return os.cpu_count() or 1


TIERS = {
    'C16': {'quick': 6000, 'thorough': 150000},
}


def cmd_run(args):
    _import_library()
    prop = args.prop
    tier = args.tier or os.environ.get('VERIF_TIER') or 'quick'
    seed = int(os.environ.get('VERIF_SEED', '0'))
    workers = args.workers or int(os.environ.get('VERIF_WORKERS', '0')) \
        or _ncpu()
    if prop == 'C16':
        from . import c16run
        return c16run.run(tier, seed, args.runs, workers)
    if prop == 'C06':
        from . import c06run
        return c06run.run(tier, seed, args.runs, workers)
    if prop == 'C07':
        from . import c07run
        return c07run.run('C07', tier, seed, args.runs, workers)
    if prop == 'C19':
        from . import c07run
        return c07run.run('C19', tier, seed, args.runs, workers)
    print('HARNESS-ERROR unknown property {}'.format(prop))
    return 2


def cmd_replay(args):
    _import_library()
    with open(args.file) as f:
        body = json.load(f)
    prop = body['property']
    print('replaying {} violation class {}'.format(
        prop, body['violation']['class']))
    if prop == 'C16':
        from . import c16
        ok, r = c16.replay(body)
    elif prop == 'C06':
        from . import c06
        ok, r = c06.replay(body)
    elif prop in ('C07', 'C19'):
        from . import c07
        ok, r = c07.replay(body)
    else:
        print('HARNESS-ERROR unknown property in replay file')
        return 2
    if ok:
        print('VIOLATION property={} replay={}'.format(
            prop, os.path.abspath(args.file)))
        if r and r.get('violation'):
            print('  class={} {}'.format(r['violation']['class'],
                                        r['violation']['detail'][:600]))
        return 1
    print('replay did not reproduce the recorded violation '
          '(the tree may have changed)')
    return 0


def main(argv):
    ap = argparse.ArgumentParser(prog='simcheck.py')
    sub = ap.add_subparsers(dest='cmd')
    r = sub.add_parser('run')
    r.add_argument('prop')
    r.add_argument('--tier', choices=['quick', 'thorough'])
    r.add_argument('--runs', type=int)
    r.add_argument('--workers', type=int)
    p = sub.add_parser('replay')
    p.add_argument('file')
    s = sub.add_parser('selftest')
    s.add_argument('what', choices=['determinism', 'sensitivity', 'seam'])
    s.add_argument('--props', default='C06,C07,C16,C19')
    s.add_argument('--n', type=int, default=200)
    s.add_argument('--mutants', default='')
    d = sub.add_parser('digests')
    d.add_argument('--props', default='C06,C07,C16,C19')
    d.add_argument('--n', type=int, default=50)
    d.add_argument('--workers', type=int, default=16)
    args = ap.parse_args(argv)
    print('simcheck: VERIF_SEED={} PYTHONHASHSEED={} aslr={} repo={}'.format(
        os.environ.get('VERIF_SEED', '0'), os.environ.get('PYTHONHASHSEED'),
        os.environ.get('SIMCHECK_ASLR'), core.REPO))
    if args.cmd == 'run':
        return cmd_run(args)
    if args.cmd == 'replay':
        return cmd_replay(args)
    if args.cmd == 'digests':
        _import_library()
        from . import selftest
        return selftest.cmd_digests(args)
    if args.cmd == 'selftest':
        from . import selftest
        return selftest.main(args)
    ap.print_help()
    return 2
