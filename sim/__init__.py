"""Deterministic simulation harness for pyModelChecking (see /verif/DESIGN.md)."""
