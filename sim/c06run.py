"""Driver for C06: stage 1 (seam + presentations), certification of seam
candidates by real interpreters, stage 2 (real PYTHONHASHSEED sweep),
known-finding handling, minimisation, evidence."""

import copy
import hashlib
import os
import random
import time

from . import c06, core, gen, known
from .driver import drive, write_replay
from .runner import run_isolated, parallel_jobs

RUNS = {'quick': 30000, 'thorough': 600000}
# stage 2: batches x cases per batch x interpreters
STAGE2 = {'quick': (12, 40, 8), 'thorough': (48, 60, 64)}
LOGIC_MIX = {'quick': ['CTL'] * 6 + ['CTLS'] * 3 + ['LTL'] * 2,
             'thorough': ['CTL'] * 5 + ['CTLS'] * 3 + ['LTL'] * 2}
CERT_SEEDS = {'quick': 24, 'thorough': 64}

RULE = (
    'Stage 1: one run = one case (abstract total Kripke structure with <=5 '
    'states (<=4 for LTL), a formula of CTL / LTL / CTL* with depth <=4 and '
    '<=3 temporal operators, optional fairness list) evaluated under a '
    'baseline (canonical presentation, no seam) and 6 perturbed executions, '
    'each drawing a subset of: simulator-chosen iteration order of every set '
    'the checkers build (seam S1), state bijection onto another type family '
    '(optionally with equal-but-distinct objects per use), shuffled S/R/L/S0 '
    'and label order, atom renaming, unreachable padding states, other '
    'container types for S/R/S0/labels (tuple, set, frozenset, dict keys).  '
    'The initial states are part of the case, not of the presentation.  evaluations = '
    'executions (baseline + perturbed + stage-2 interpreter evaluations).  A '
    'case is NON-TRIVIAL when at least one of its executions made a '
    'non-identity scheduler decision at a site with >=2 elements or used a '
    'non-identity presentation, AND its baseline answer is neither empty nor '
    'all states nor an exception; DISTINCT = distinct sha256 of (case, '
    'baseline answer).  Stage 2: batches of cases with string states '
    'evaluated by fresh unpatched interpreters under different '
    'PYTHONHASHSEED values; all interpreters must agree.  A seam-only '
    'divergence is a candidate and is reported only if real unpatched '
    'executions (other presentations or other hash seeds) disagree.')

ASSUMPTIONS = [
    'the oracle is the library itself under the canonical presentation: a '
    'defect that is invariant under every perturbation is not visible here',
    'SimSet explores a superset of the iteration orders CPython can produce; '
    'only divergences confirmed by unpatched interpreters are reported',
    'atom renamings stay within identifier-style names that are not operator '
    'symbols; set literals/comprehensions and _TableuAtom keep real hash '
    'order under S1 (covered by stage 2 only)',
    'known finding KF1 (known_findings.txt) is attributed only through its '
    'trigger predicate and differing fair-state sets',
    'sampling, not enumeration',
]

COMPONENTS = {'real': ['pyModelChecking (all modules)', 'lark'],
              'stub': [],
              'substituted': ['the global name `set` in graph, kripke and the '
                              'three model_checking modules is bound to '
                              'sim.simset.SimSet in seam executions only']}


def _case_digest(case, base):
    return core.digest([case, base['o']])


def _nontrivial(case, base, plan, res):
    o = base['o']
    if o[0] != 'ok':
        return False
    n = case['K']['n']
    if len(o[1]) == 0 or len(o[1]) == n:
        return False
    if res['nonid'] > 0:
        return True
    ident = c06.identity_presentation(case)
    return any(p['S'] != ident['S'] or p['smap'] != ident['smap']
               or p['R'] != ident['R'] for p in plan['execs'])


# ---------------------------------------------------------------------------
# minimisation helpers

def _pair_diverges(case, pa, pb, timeout):
    def fn(_):
        a = c06.evaluate(case, pa, True)
        b = c06.evaluate(case, pb, True)
        return [a, b]
    st, r = run_isolated(fn, None, timeout)
    if st != 'ok':
        return False, None
    a, b = r
    if a['o'] == b['o']:
        return False, r
    if c06.kf1_applies(case, a.get('fair'), b.get('fair')):
        return False, r
    return True, r


def _subtrees(tree):
    """Candidate simpler formulas: replace any node by one of its children."""
    out = []

    def walk(t, rebuild):
        if t[0] in ('ap', 'bool'):
            return
        for k in range(1, len(t)):
            out.append(rebuild(t[k]))
        for k in range(1, len(t)):
            walk(t[k], (lambda sub, k=k, t=t, rb=rebuild:
                        rb(t[:k] + [sub] + t[k + 1:])))
    walk(tree, lambda x: x)
    out.sort(key=core.tree_size)
    return out


def _drop_edge(case, presl, e):
    K = case['K']
    ne = len(K['E'])
    src = K['E'][e][0]
    if sum(1 for a, _ in K['E'] if a == src) < 2:
        return None
    c = copy.deepcopy(case)
    del c['K']['E'][e]
    out = []
    for p in presl:
        p = copy.deepcopy(p)
        p['R'] = [k - 1 if k > e else k for k in p['R'] if k != e]
        out.append(p)
    return c, out


def _drop_state(case, presl, k):
    """The case without abstract state k (presentations adjusted), or None
    if that is not a well-formed case (padding present, relation no longer
    total, a fairness set emptied)."""
    K = case['K']
    n = K['n']
    if n <= 1 or any(p.get('pad') for p in presl):
        return None
    keep_e = [i for i, (a, b) in enumerate(K['E']) if a != k and b != k]
    E = [[a - (a > k), b - (b > k)] for a, b in
         (K['E'][i] for i in keep_e)]
    if set(a for a, _ in E) != set(range(n - 1)):
        return None
    c = copy.deepcopy(case)
    c['K'] = {'n': n - 1, 'E': E,
              'lab': [l for i, l in enumerate(K['lab']) if i != k]}
    if case.get('F') is not None:
        F = [[x - (x > k) for x in P if x != k] for P in case['F']]
        if any(not P for P in F):
            return None
        c['F'] = F
    c['S0'] = [x - (x > k) for x in (case.get('S0') or []) if x != k]
    emap = dict((old, new) for new, old in enumerate(keep_e))
    out = []
    for p in presl:
        p = copy.deepcopy(p)
        p['smap'] = [v for i, v in enumerate(p['smap']) if i != k]
        p['S'] = [i - (i > k) for i in p['S'] if i != k]
        p['L'] = [i - (i > k) for i in p['L'] if i != k]
        p['R'] = [emap[e] for e in p['R'] if e in emap]
        out.append(p)
    return c, out


def minimise_pair(case, pa, pb, timeout, budget=160):
    """Shrink (case, presentation a, presentation b) while they still give
    different answers (and the difference is not KF1)."""
    tests = [0]

    def ok(c, a, b):
        tests[0] += 1
        return _pair_diverges(c, a, b, timeout)[0]

    ident = c06.identity_presentation(case)
    # 1. presentation components back to identity
    for p in (pa, pb):
        for key in ('pad', 'amap', 'S0rot', 'lab_rot', 'fresh', 'lab_share',
                    'smap', 'S', 'R', 'L', 'ctype', 'Fperm', 'Frot', 'Fct',
                    'Fin'):
            if tests[0] >= budget:
                break
            if p.get(key) == ident.get(key):
                continue
            old = copy.deepcopy(p)
            if key == 'pad':
                n = case['K']['n']
                ne = len(case['K']['E'])
                p['pad'] = None
                p['smap'] = p['smap'][:n]
                p['S'] = [i for i in p['S'] if i < n]
                p['L'] = [i for i in p['L'] if i < n]
                p['R'] = [k for k in p['R'] if k < ne]
            elif key in ('S', 'L'):
                p[key] = sorted(p[key])
            elif key == 'R':
                p[key] = sorted(set(p[key]))
            elif key == 'smap':
                p['smap'] = [{'i': k} for k in range(len(p['smap']))]
            else:
                p[key] = copy.deepcopy(ident.get(key))
            if not ok(case, pa, pb):
                p.clear()
                p.update(old)
    # 2. formula
    changed = True
    while changed and tests[0] < budget:
        changed = False
        for sub in _subtrees(case['f']):
            if tests[0] >= budget:
                break
            c = dict(case)
            c['f'] = sub
            if ok(c, pa, pb):
                case = c
                changed = True
                break
    # 2b. states
    k = case['K']['n'] - 1
    while k >= 0 and tests[0] < budget:
        r = _drop_state(case, [pa, pb], k)
        if r is not None and ok(r[0], r[1][0], r[1][1]):
            case, (pa, pb) = r
        k -= 1
    # 3. edges
    e = 0
    while e < len(case['K']['E']) and tests[0] < budget:
        r = _drop_edge(case, [pa, pb], e)
        if r is not None and ok(r[0], r[1][0], r[1][1]):
            case, (pa, pb) = r
        else:
            e += 1
    # 4. labels
    for i in range(case['K']['n']):
        for a in list(case['K']['lab'][i]):
            if tests[0] >= budget:
                break
            c = copy.deepcopy(case)
            c['K']['lab'][i].remove(a)
            if ok(c, pa, pb):
                case = c
    return case, pa, pb


def minimise_hashseed(case, pres, ha, hb, budget=40):
    tests = [0]

    def ok(c, p):
        tests[0] += 1
        try:
            ra = c06.run_plain([[c, p]], ha)[0]
            rb = c06.run_plain([[c, p]], hb)[0]
        except Exception:
            return False
        if ra[0] == rb[0]:
            return False
        return not c06.kf1_applies(c, ra[1], rb[1])

    changed = True
    while changed and tests[0] < budget:
        changed = False
        for sub in _subtrees(case['f']):
            if tests[0] >= budget:
                break
            c = dict(case)
            c['f'] = sub
            if ok(c, pres):
                case = c
                changed = True
                break
    e = 0
    while e < len(case['K']['E']) and tests[0] < budget:
        r = _drop_edge(case, [pres], e)
        if r is not None and ok(r[0], r[1][0]):
            case, (pres,) = r
        else:
            e += 1
    return case, pres


# ---------------------------------------------------------------------------
# certification of a seam candidate by real executions

def certify(ctx, case, seed):
    """Search for two real, unpatched executions that disagree.  Returns a
    certificate dict or None."""
    rng = random.Random(seed ^ 0x5eed)
    variants = [c06.string_presentation(case)]
    atoms = core.formula_atoms(case['f'])
    for a in gen.ATOM_POOL:
        if a not in atoms:
            atoms.append(a)
    for _ in range(12):
        variants.append(c06.string_presentation(
            case, rng, gen.rename_map(rng, atoms)))
    items = [[case, p] for p in variants]
    nseeds = CERT_SEEDS[ctx['tier']]
    seeds = [0] + [rng.randrange(1, 2 ** 32) for _ in range(nseeds - 1)]
    first = None
    for h in seeds:
        try:
            out = c06.run_plain(items, h)
        except Exception:
            continue
        if first is None:
            first = (h, out)
            # different real presentations in one interpreter
            for k in range(1, len(out)):
                if out[k][0] != out[0][0] and not c06.kf1_applies(
                        case, out[k][1], out[0][1]):
                    return {'mode': 'presentation', 'a': variants[0],
                            'b': variants[k]}
            continue
        for k in range(len(out)):
            if out[k][0] != first[1][k][0] and not c06.kf1_applies(
                    case, out[k][1], first[1][k][1]):
                return {'mode': 'hashseed', 'pres': variants[k],
                        'a': first[0], 'b': h}
    return None


# ---------------------------------------------------------------------------
# stage-1 job

def job(ctx, i):
    seed = core.run_seed(ctx['seed'], 'C06', ctx['tier'], i)
    plan = c06.gen_plan(seed, LOGIC_MIX[ctx['tier']])
    st, res = run_isolated(c06.execute, plan, ctx['timeout'])
    if st == 'timeout':
        return {'status': 'timeout'}
    if st != 'ok':
        return {'status': 'harness_error', 'detail': '{} {}'.format(st, res)}
    case = plan['case']
    base = res['base']
    dg = _case_digest(case, base)
    probes = dict(res['probes'])
    cfg = plan['cfg']
    if cfg['fair']:
        probes['fairness_given'] = 1
        if base.get('fair'):
            probes['fairness_with_nonempty_fair_set'] = 1
    probes['logic_' + cfg['logic']] = 1
    if base['o'][0] == 'raise':
        probes['baseline_raised_' + base['o'][1]] = 1
    out = {'status': 'ok', 'evaluations': 1 + len(plan['execs']),
           'steps': sum(len(o.get('log', [])) for o in res['outs']),
           'probes': probes, 'sites': res['sites'],
           'faults': {'iteration_order_permuted': res['nonid'],
                      'presentation_perturbed': sum(
                          1 for p in plan['execs'] if not p.get('seam')),
                      },
           'digests': [dg],
           'nontrivial_digests': [dg] if _nontrivial(case, base, plan, res)
           else [],
           'sets': {'schedules (digest of the non-identity decisions of one '
                    'seam execution)': [
                        core.digest([d for d in o['log'] if d[2] is not None])
                        for o in res['outs'] if o.get('nonid')],
                    'presentations (digest of one perturbed presentation)': [
                        core.digest({k: v for k, v in p.items()
                                     if k not in ('sched_seed', 'log')})
                        for p in plan['execs']]}}
    if i < 2:
        out['sample'] = {'run': i, 'run_seed': seed, 'case': case,
                         'text': core.formula_text(case['f']),
                         'baseline': base['o'],
                         'executions': [
                             {k: v for k, v in p.items() if k != 'log'}
                             for p in plan['execs']],
                         'outcomes': [o['o'] for o in res['outs']]}
    div = [k for k, o in enumerate(res['outs']) if c06.diverges(base, o)]
    if not div:
        return out
    extra = {'divergent_runs': 1}
    ident = c06.identity_presentation(case)
    handled = False
    for k in div:
        o = res['outs'][k]
        pres = plan['execs'][k]
        if c06.kf1_applies(case, base.get('fair'), o.get('fair')):
            out.setdefault('known', []).append({'id': 'KF1'})
            extra['kf1_attributed'] = extra.get('kf1_attributed', 0) + 1
            continue
        if handled:
            continue
        handled = True
        cert = None
        pb = copy.deepcopy(pres)
        pb['seam'] = False
        pb.pop('log', None)
        real, _ = _pair_diverges(case, ident, pb, ctx['timeout'])
        if real:
            cert = {'mode': 'presentation', 'a': ident, 'b': pb}
            extra['certified_presentation'] = 1
        else:
            extra['seam_candidates'] = 1
            cert = certify(ctx, case, seed)
            if cert is not None:
                extra['certified_' + cert['mode']] = 1
        if cert is None:
            extra['unconfirmed_seam_divergence'] = 1
            out.setdefault('notes', {})['unconfirmed_seam_divergence'] = {
                'case': case, 'text': core.formula_text(case['f']),
                'baseline': base['o'], 'seam_outcome': o['o'],
                'decisions': [d for d in o.get('log', [])
                              if d[2] is not None][:40]}
            continue
        # minimise and write the replay
        mcase = case
        if cert['mode'] == 'presentation':
            mcase, pa, pbm = minimise_pair(case, cert['a'], cert['b'],
                                           ctx['timeout'])
            cert = {'mode': 'presentation', 'a': pa, 'b': pbm}
        else:
            mcase, mp = minimise_hashseed(case, cert['pres'], cert['a'],
                                          cert['b'])
            cert = dict(cert)
            cert['pres'] = mp
        body = {'format': 1, 'property': 'C06', 'verif_seed': ctx['seed'],
                'tier': ctx['tier'], 'run': i, 'run_seed': seed,
                'violation': {'class': 'C06/divergence-' + cert['mode'],
                              'detail': ''},
                'case': mcase, 'text': core.formula_text(mcase['f']),
                'original_case': case, 'certificate': cert,
                'seam_decisions': [d for d in o.get('log', [])
                                   if d[2] is not None][:60]}
        oks = 0
        detail = ''
        for _ in range(2):
            try:
                ok, r = c06.replay(body)
            except Exception as e:
                ok, r = False, None
            if ok:
                oks += 1
                detail = r['violation']['detail']
        if oks == 0:
            # minimisation lost it: fall back to the unminimised case
            body['case'] = case
            body['text'] = core.formula_text(case['f'])
            if cert['mode'] == 'presentation':
                body['certificate'] = {'mode': 'presentation', 'a': ident,
                                       'b': pb}
            ok, r = c06.replay(body)
            oks = 1 if ok else 0
            detail = r['violation']['detail'] if ok else 'not reproduced'
        body['violation']['detail'] = detail
        body['replayed_ok'] = oks
        if oks == 0:
            extra['unconfirmed_seam_divergence'] = 1
            continue
        path = write_replay('C06', ctx['seed'], ctx['tier'], i, body)
        out['violations'] = [{'class': body['violation']['class'],
                              'detail': '{} | {} on {} states'.format(
                                  detail, body['text'], mcase['K']['n']),
                              'replay': path}]
    out['extra'] = extra
    return out


# ---------------------------------------------------------------------------
# stage 2

def stage2_batch(verif_seed, tier, b, ncases):
    rng = random.Random(core.run_seed(verif_seed, 'C06-stage2', tier, b))
    items = []
    mix = ['LTL', 'LTL', 'CTLS', 'CTLS', 'CTL']
    for _ in range(ncases):
        logic = rng.choice(mix)
        cfg = {'logic': logic, 'natoms': rng.choice([2, 3]),
               'nmax': 4 if logic == 'LTL' else 5,
               'density': rng.choice([0.2, 0.5, 0.8]),
               'shape': rng.choice(gen.SHAPES),
               'depth': rng.choice([2, 3, 3]), 'tmax': rng.choice([2, 3, 3]),
               'pconst': rng.choice([0.1, 0.3, 0.45]),
               'fair': logic != 'LTL' and rng.random() < 0.2,
               'uniform_loops': rng.random() < 0.6,
               'fairfriendly': rng.random() < 0.5}
        case = c06.gen_case(rng, cfg)
        amap = None
        if rng.random() < 0.5:
            atoms = gen.ATOM_POOL[:cfg['natoms']]
            amap = gen.rename_map(rng, atoms)
        pres = c06.string_presentation(case, rng, amap)
        if rng.random() < 0.5:
            rng.shuffle(pres['S'])
            rng.shuffle(pres['R'])
            rng.shuffle(pres['L'])
        items.append([case, pres])
    return items


def stage2_seeds(verif_seed, tier, H):
    rng = random.Random(core.run_seed(verif_seed, 'C06-hashseeds', tier, 0))
    return [0] + [rng.randrange(1, 2 ** 32) for _ in range(H - 1)]


def run_stage2(tier, seed, workers, agg_extra, lines):
    B, N, H = STAGE2[tier]
    seeds = stage2_seeds(seed, tier, H)
    results = {}

    def job2(j):
        b, h = divmod(j, H)
        items = stage2_batch(seed, tier, b, N)
        t0 = time.time()
        try:
            out = c06.run_plain(items, seeds[h], timeout=1800)
        except Exception as e:
            return {'err': str(e)[-500:]}
        return {'out': out}

    def on(j, res):
        results[j] = res

    parallel_jobs(job2, B * H, workers, on)
    viol = []
    known_hits = 0
    evals = 0
    errs = 0
    closure_order_varied = 0
    for b in range(B):
        items = stage2_batch(seed, tier, b, N)
        outs = []
        for h in range(H):
            r = results.get(b * H + h)
            if r is None or 'err' in r:
                errs += 1
                outs.append(None)
            else:
                outs.append(r['out'])
                evals += len(r['out'])
        ref_h = next((h for h in range(H) if outs[h] is not None), None)
        if ref_h is None:
            continue
        for c in range(N):
            for h in range(H):
                if outs[h] is None or h == ref_h:
                    continue
                a, bb = outs[ref_h][c], outs[h][c]
                if a[0] == bb[0]:
                    continue
                case, pres = items[c]
                if c06.kf1_applies(case, a[1], bb[1]):
                    known_hits += 1
                    continue
                viol.append((b, c, seeds[ref_h], seeds[h], case, pres))
                break
    out_viol = []
    for (b, c, ha, hb, case, pres) in viol[:3]:
        mcase, mp = minimise_hashseed(case, pres, ha, hb)
        body = {'format': 1, 'property': 'C06', 'verif_seed': seed,
                'tier': tier, 'run': 'stage2-{}-{}'.format(b, c),
                'violation': {'class': 'C06/divergence-hashseed',
                              'detail': ''},
                'case': mcase, 'text': core.formula_text(mcase['f']),
                'original_case': case,
                'certificate': {'mode': 'hashseed', 'pres': mp, 'a': ha,
                                'b': hb}}
        ok, r = c06.replay(body)
        if not ok:
            body['case'] = case
            body['certificate']['pres'] = pres
            ok, r = c06.replay(body)
        if ok:
            body['violation']['detail'] = r['violation']['detail']
            body['replayed_ok'] = 1
            path = write_replay('C06', seed, tier,
                                'stage2-{}-{}'.format(b, c), body)
            out_viol.append({'class': body['violation']['class'],
                             'detail': body['violation']['detail'] + ' | ' +
                             body['text'], 'replay': path})
    agg_extra.update({'stage2': {
        'batches': B, 'cases_per_batch': N, 'interpreters': H,
        'hash_seeds': seeds[:16], 'evaluations': evals,
        'interpreter_errors': errs, 'divergent_cases': len(viol),
        'known_finding_hits': known_hits}})
    return out_viol, evals, errs, known_hits


def run(tier, seed, runs, workers):
    n = runs or RUNS[tier]
    ctx = {'seed': seed, 'tier': tier, 'timeout': 300.0}
    pre = known.witness_lines('C06')

    def job(i):
        return job_(ctx, i)

    job_ = globals()['job']
    t0 = time.time()
    extra = {}
    lines = []
    if os.environ.get('C06_SKIP_STAGE2') == '1':
        v2, ev2, errs2, kh2 = [], 0, 0, 0
        extra['stage2'] = 'skipped by C06_SKIP_STAGE2'
    else:
        v2, ev2, errs2, kh2 = run_stage2(tier, seed, workers, extra, lines)
    extra['stage2_wall_s'] = round(time.time() - t0, 1)

    def job_with_stage2(i):
        if i == n:
            # pseudo-run carrying the stage-2 result into the aggregate
            r = {'status': 'ok', 'evaluations': ev2, 'probes': {
                'stage2_real_interpreter_evaluations': ev2},
                'faults': {'real_hash_seed_changed': ev2}}
            if v2:
                r['violations'] = v2
            if kh2:
                r['known'] = [{'id': 'KF1'}] * kh2
            if errs2:
                r = dict(r)
                r['notes'] = {'stage2_interpreter_errors': errs2}
            return r
        return job_(ctx, i)

    code, agg = drive('C06', tier, seed, n + 1, workers, job_with_stage2,
                      RULE, '', ASSUMPTIONS, COMPONENTS,
                      wall_cap=(900 if tier == 'quick' else 8 * 3600),
                      pre_lines=pre, extra_coverage=extra)
    if errs2 and code == 0:
        print('HARNESS-ERROR stage 2: {} interpreter runs failed'.format(
            errs2))
        code = 2
    return code
