"""Self-tests of the simulator itself.

determinism : every run seed executed several times - in separate processes,
              at different worker counts, and under another interpreter hash
              seed - must give identical outcome digests; schedule digests
              must be identical whenever the interpreter hash seed is.
sensitivity : each seeded change under /verif/seeded/*/ is applied to a scratch
              worktree (never to /repo); the repository suite is run, and the
              quick check of the targeted property must end in VIOLATION with
              a replay file that reproduces against the patched tree and does
              not reproduce against /repo.
"""

import json
import os
import subprocess
import sys
import time

from . import core
from .runner import parallel_jobs, run_isolated

SIMCHECK = os.path.join(core.VERIF, 'simcheck.py')


# ---------------------------------------------------------------------------

def run_digest(prop, i, tier='quick', seed=0):
    """[outcome digest, schedule digest] of run i of a check."""
    rs = core.run_seed(seed, prop, tier, i)
    if prop == 'C16':
        from . import c16
        plan = c16.gen_plan(rs)
        st, r = run_isolated(c16.execute, plan, 300)
        if st != 'ok':
            return [st, st]
        # mid-operation GC firing counts are not part of the schedule
        # digest: node hashes are addresses, so the number of line events
        # inside find_isomorph depends on the heap layout of the process
        f = dict(r['faults'])
        f.pop('gc_mid_op', None)
        return [r['events_digest'], core.digest([plan, f])]
    if prop in ('C07', 'C19'):
        from . import c07, c07run
        plan = c07run.plan_for(prop, rs, i)
        if plan['cfg'].get('feedback'):
            st, plan = run_isolated(c07.materialise_feedback, plan, 600)
            if st != 'ok':
                return [st, st]
        st, r = run_isolated(c07.execute, plan, 600)
        if st != 'ok':
            return [st, st]
        return [r['events_digest'], core.digest([plan, r['faults'],
                                                 r['probes']])]
    if prop == 'C06':
        from . import c06, c06run
        plan = c06.gen_plan(rs, c06run.LOGIC_MIX[tier])
        st, r = run_isolated(c06.execute, plan, 300)
        if st != 'ok':
            return [st, st]
        return [core.digest([r['base']['o'], [o['o'] for o in r['outs']]]),
                core.digest([o.get('log') for o in r['outs']])]
    raise core.HarnessError(prop)


def cmd_digests(args):
    props = args.props.split(',')
    out = {}
    jobs = [(p, i) for p in props for i in range(args.n)]

    def job(j):
        p, i = jobs[j]
        return run_digest(p, i)

    def on(j, res):
        p, i = jobs[j]
        out['{}:{}'.format(p, i)] = res

    workers = args.workers or 16
    parallel_jobs(job, len(jobs), workers, on)
    print('DIGESTS ' + json.dumps(out, sort_keys=True))
    return 0


def _spawn(props, n, workers, hashseed):
    env = dict(os.environ)
    env.pop('SIMCHECK_PINNED', None)
    env['SIMCHECK_HASHSEED'] = str(hashseed)
    p = subprocess.run([sys.executable, SIMCHECK, 'digests', '--props', props,
                        '--n', str(n), '--workers', str(workers)],
                       capture_output=True, text=True, env=env)
    for line in p.stdout.splitlines():
        if line.startswith('DIGESTS '):
            return json.loads(line[8:])
    raise core.HarnessError('digest subprocess failed: ' + p.stderr[-2000:]
                            + p.stdout[-500:])


def determinism(args):
    props = args.props
    n = args.n
    t0 = time.time()
    variants = [('A', 16, 0), ('B', 16, 0), ('C', 4, 0), ('D', 7, 0),
                ('E', 16, 12345)]
    res = {}
    for name, w, hs in variants:
        res[name] = _spawn(props, n, w, hs)
        print('variant {} workers={} PYTHONHASHSEED={} : {} runs'.format(
            name, w, hs, len(res[name])))
        sys.stdout.flush()
    bad = 0
    soft = 0
    keys = sorted(res['A'])
    for k in keys:
        a = res['A'][k]
        for name in ('B', 'C', 'D'):
            b = res[name][k]
            if a != b:
                bad += 1
                print('MISMATCH {} variant {}: {} vs {}'.format(k, name, a, b))
        e = res['E'][k]
        if a[0] != e[0]:
            prop, i = k.split(':')
            if prop == 'C07' and int(i) % 3 == 1:
                soft += 1      # fault position depends on real hash order
            else:
                bad += 1
                print('MISMATCH {} under another hash seed: {} vs {}'
                      .format(k, a[0], e[0]))
    print('determinism: {} run seeds x 5 executions, {} mismatches, {} '
          'fault-configuration runs whose outcome digest differs under '
          'another interpreter hash seed (line-event positions follow real '
          'hash order), {:.0f}s'.format(len(keys), bad, soft,
                                        time.time() - t0))
    return 0 if bad == 0 else 2


# ---------------------------------------------------------------------------

def sensitivity(args):
    seeded = os.path.join(core.VERIF, 'seeded')
    names = sorted(d for d in os.listdir(seeded)
                   if os.path.isdir(os.path.join(seeded, d)))
    if args.mutants:
        names = [x for x in names if x in args.mutants.split(',')]
    rows = []
    for name in names:
        d = os.path.join(seeded, name)
        meta = {}
        mp = os.path.join(d, 'meta.json')
        if os.path.exists(mp):
            meta = json.load(open(mp))
        prop = meta.get('caught_by_check') or \
            meta.get('property', name.split('-')[0])
        wt = '/tmp/senswt_{}'.format(os.getpid())
        out = '/tmp/sensout_{}'.format(os.getpid())
        subprocess.run(['git', '-C', core.REPO, 'worktree', 'add', '-q',
                        '--detach', wt, 'HEAD'], check=True)
        row = {'mutant': name, 'property': prop}
        try:
            ap = subprocess.run(['git', 'apply',
                                 os.path.join(d, 'patch.diff')], cwd=wt,
                                capture_output=True, text=True)
            if ap.returncode != 0:
                row['result'] = 'PATCH-DOES-NOT-APPLY'
                rows.append(row)
                continue
            t = subprocess.run([sys.executable, '-m', 'pytest', '-q', '-p',
                                'no:cacheprovider'], cwd=wt,
                               capture_output=True, text=True)
            row['suite'] = t.stdout.strip().splitlines()[-1][:60]
            env = dict(os.environ)
            env.pop('SIMCHECK_PINNED', None)
            env['VERIF_REPO'] = wt
            env['VERIF_SCRATCH_OUT'] = out
            cmd = [sys.executable, SIMCHECK, 'run', prop, '--tier', 'quick']
            if args.n and args.n != 200:
                cmd += ['--runs', str(args.n)]
            t0 = time.time()
            c = subprocess.run(cmd, capture_output=True, text=True, env=env)
            row['check_exit'] = c.returncode
            row['check_s'] = round(time.time() - t0, 1)
            viol = [l for l in c.stdout.splitlines()
                    if l.startswith('VIOLATION ')]
            row['violations'] = len(viol)
            if viol:
                path = viol[0].split('replay=')[1].strip()
                r1 = subprocess.run([sys.executable, SIMCHECK, 'replay',
                                     path], capture_output=True, text=True,
                                    env=env)
                env2 = dict(env)
                env2['VERIF_REPO'] = core.REPO
                r2 = subprocess.run([sys.executable, SIMCHECK, 'replay',
                                     path], capture_output=True, text=True,
                                    env=env2)
                row['replay_on_mutant_exit'] = r1.returncode
                row['replay_on_repo_exit'] = r2.returncode
            row['result'] = 'CAUGHT' if (c.returncode == 1 and viol) \
                else 'MISSED'
            ext = [l for l in c.stdout.splitlines()
                   if l.startswith('EXTENSION-FINDING ')]
            row['extension_findings'] = len(ext)
            if meta.get('expect') == 'extension_finding':
                row['result'] = 'EXTENSION-FINDING' if ext and \
                    c.returncode == 0 else 'MISSED'
            if meta.get('expect') == 'out_of_scope':
                row['result'] = 'OUT-OF-SCOPE(' + row['result'].lower() + ')'
        finally:
            subprocess.run(['git', '-C', core.REPO, 'worktree', 'remove',
                            '--force', wt])
            subprocess.run(['rm', '-rf', out])
        rows.append(row)
        print(json.dumps(row, sort_keys=True))
        sys.stdout.flush()
    missed = [r for r in rows if r.get('result') != 'CAUGHT'
              and not str(r.get('result')).startswith('OUT-OF-SCOPE')
              and r.get('result') != 'EXTENSION-FINDING']
    print('sensitivity: {} seeded changes, {} caught, {} not'.format(
        len(rows), len(rows) - len(missed), len(missed)))
    return 0 if not missed else 3


def seam(args):
    """SimSet must be a `set` in everything but iteration order: random
    operation sequences are applied to a plain set and to a SimSet under a
    random scheduler; contents, lengths, return values, raised exceptions
    and the type of derived sets are compared.  Also checks that the model
    of C16 agrees with brute-force evaluation."""
    import random
    from . import simset, c16
    from .core import Scheduler
    rng = random.Random(int(os.environ.get('VERIF_SEED', '0')))
    simset._SCHED[0] = Scheduler(random.Random(1), 'random')
    vals = [0, 1, 2, 3, 'a', 'b', (1, 2), 2.5, 'zz', -1]
    bad = 0
    nops = 0
    for trial in range(3000):
        a, b = set(), simset.SimSet()
        other = set(rng.sample(vals, rng.randint(0, 5)))
        for _ in range(rng.randint(1, 25)):
            op = rng.choice(['add', 'discard', 'remove', 'update', 'pop',
                             'clear', 'ior', 'iand', 'isub', 'ixor', 'or',
                             'and', 'sub', 'xor', 'rsub', 'copy', 'iter',
                             'union', 'intersection', 'difference', 'cmp',
                             'keys'])
            x = rng.choice(vals)
            nops += 1
            ra = rb = None
            ea = eb = None
            try:
                if op in ('add', 'discard', 'remove'):
                    ra = getattr(a, op)(x)
                elif op == 'update':
                    ra = a.update(other)
                elif op == 'pop':
                    ra = 'popped' if a.pop() is not None or True else None
                elif op == 'clear':
                    ra = a.clear()
                elif op == 'ior':
                    a |= other
                elif op == 'iand':
                    a &= other
                elif op == 'isub':
                    a -= other
                elif op == 'ixor':
                    a ^= other
                elif op == 'or':
                    ra = a | other
                elif op == 'and':
                    ra = a & other
                elif op == 'sub':
                    ra = a - other
                elif op == 'xor':
                    ra = a ^ other
                elif op == 'rsub':
                    ra = other - a
                elif op == 'copy':
                    ra = a.copy()
                elif op == 'iter':
                    ra = set(list(a))
                elif op == 'union':
                    ra = a.union(other, [x])
                elif op == 'intersection':
                    ra = a.intersection(other)
                elif op == 'difference':
                    ra = a.difference(other)
                elif op == 'cmp':
                    ra = (a == other, a <= other, a >= other, x in a, len(a))
                elif op == 'keys':
                    ra = a - dict.fromkeys(other).keys()
            except Exception as e:
                ea = type(e).__name__
            try:
                if op in ('add', 'discard', 'remove'):
                    rb = getattr(b, op)(x)
                elif op == 'update':
                    rb = b.update(other)
                elif op == 'pop':
                    rb = 'popped' if b.pop() is not None or True else None
                elif op == 'clear':
                    rb = b.clear()
                elif op == 'ior':
                    b |= other
                elif op == 'iand':
                    b &= other
                elif op == 'isub':
                    b -= other
                elif op == 'ixor':
                    b ^= other
                elif op == 'or':
                    rb = b | other
                elif op == 'and':
                    rb = b & other
                elif op == 'sub':
                    rb = b - other
                elif op == 'xor':
                    rb = b ^ other
                elif op == 'rsub':
                    rb = other - b
                elif op == 'copy':
                    rb = b.copy()
                elif op == 'iter':
                    rb = set(list(b))
                elif op == 'union':
                    rb = b.union(other, [x])
                elif op == 'intersection':
                    rb = b.intersection(other)
                elif op == 'difference':
                    rb = b.difference(other)
                elif op == 'cmp':
                    rb = (b == other, b <= other, b >= other, x in b, len(b))
                elif op == 'keys':
                    rb = b - dict.fromkeys(other).keys()
            except Exception as e:
                eb = type(e).__name__
            if op == 'pop':
                # which element is popped is the scheduler's choice
                if ea != eb or (ea is None and len(a) != len(b)):
                    bad += 1
                    print('MISMATCH pop', ea, eb)
                b.clear()
                b.update(a)
                continue
            same = (ea == eb) and set(a) == set(set.__iter__(b))
            if isinstance(ra, set) or isinstance(rb, set):
                same = same and isinstance(rb, set) and \
                    set(ra) == set(set.__iter__(set(rb)))
                if op not in ('iter',) and isinstance(rb, set) and \
                        op != 'keys' and not isinstance(rb, simset.SimSet):
                    same = False
            else:
                same = same and ra == rb
            if not same:
                bad += 1
                print('MISMATCH', op, x, sorted(map(str, a)),
                      sorted(map(str, set.__iter__(b))), ra, rb, ea, eb)
    simset._SCHED[0] = None
    print('seam: {} operations on 3000 random set/SimSet pairs, {} '
          'mismatches'.format(nops, bad))
    # C16 model against brute force
    r2 = random.Random(5)
    V = ['a', 'b', 'c', 'd', 'e']

    def brute(e, asg):
        o = e[0]
        if o == 'v':
            return asg[e[1]]
        if o == 'c':
            return e[1] in (1, True, '1', 'True')
        if o in ('~', 'not'):
            return not brute(e[1], asg)
        vs = [brute(x, asg) for x in e[1:]]
        return all(vs) if o in ('&', 'and') else any(vs)
    mb = 0
    for _ in range(2000):
        e = c16.gen_expr(r2, 3, r2.sample(V, 3))
        f = c16.expr_fn(e)
        for k in range(32):
            asg = dict((v, bool((k >> j) & 1)) for j, v in enumerate(V))
            kk = sum((1 << j) for j, v in enumerate(f[0]) if asg[v])
            if bool((f[1] >> kk) & 1) != brute(e, asg):
                mb += 1
    print('c16 model: 2000 random expressions x 32 assignments, {} '
          'disagreements with brute-force evaluation'.format(mb))
    return 0 if bad == 0 and mb == 0 else 2


def main(args):
    if args.what == 'determinism':
        return determinism(args)
    if args.what == 'seam':
        return seam(args)
    return sensitivity(args)
