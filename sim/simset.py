"""S1 - the order seam.

SimSet is a subclass of `set` that differs from it in exactly one respect:
the order in which it yields its elements is chosen by the scheduler.  The
order is fixed while the set is unchanged and forgotten whenever the set is
mutated - the freedom the language gives (a set has no defined order; CPython
keeps the order of an unchanged set stable and may change it arbitrarily on
insertion because of rehashing).

install(scheduler) binds the global name `set` of the five library modules
that build sets on the checking paths to SimSet; uninstall() removes it.
"""

import sys

from .core import canon_key

_SCHED = [None]

PATCHED = ['pyModelChecking.graph', 'pyModelChecking.kripke',
           'pyModelChecking.CTL.model_checking',
           'pyModelChecking.LTL.model_checking',
           'pyModelChecking.CTLS.model_checking']

_REPO_MARK = 'pyModelChecking' + '/'


def _site():
    f = sys._getframe(1)
    # first frame outside this file
    while f is not None and f.f_code.co_filename == __file__:
        f = f.f_back
    if f is None:
        return '?'
    fn = f.f_code.co_filename
    k = fn.rfind(_REPO_MARK)
    if k >= 0:
        fn = fn[k + len(_REPO_MARK):]
    return '{}:{}'.format(fn, f.f_lineno)


class SimSet(set):
    __slots__ = ('_order',)

    def __init__(self, *a):
        set.__init__(self, *a)
        self._order = None

    # -- order ----------------------------------------------------------
    def _ordered(self):
        if self._order is None:
            items = sorted(set.__iter__(self), key=canon_key)
            sched = _SCHED[0]
            if sched is not None and len(items) > 1:
                perm = sched.permutation(_site(), len(items))
                if perm is not None:
                    items = [items[k] for k in perm]
            self._order = items
        return self._order

    def __iter__(self):
        order = self._ordered()
        n = len(order)
        for x in list(order):
            if set.__len__(self) != n:
                raise RuntimeError('Set changed size during iteration')
            yield x

    def pop(self):
        if not set.__len__(self):
            raise KeyError('pop from an empty set')
        x = self._ordered()[0]
        set.remove(self, x)
        self._order = None
        return x

    # -- mutators forget the order ---------------------------------------
    def add(self, x):
        if x not in self:
            self._order = None
        set.add(self, x)

    def discard(self, x):
        self._order = None
        set.discard(self, x)

    def remove(self, x):
        self._order = None
        set.remove(self, x)

    def clear(self):
        self._order = None
        set.clear(self)

    def update(self, *others):
        self._order = None
        set.update(self, *[_plain(o) for o in others])

    def difference_update(self, *others):
        self._order = None
        set.difference_update(self, *[_plain(o) for o in others])

    def intersection_update(self, *others):
        self._order = None
        set.intersection_update(self, *[_plain(o) for o in others])

    def symmetric_difference_update(self, other):
        self._order = None
        set.symmetric_difference_update(self, _plain(other))

    def __ior__(self, other):
        self._order = None
        set.update(self, _plain(other))
        return self

    def __iand__(self, other):
        self._order = None
        set.intersection_update(self, _plain(other))
        return self

    def __isub__(self, other):
        self._order = None
        set.difference_update(self, _plain(other))
        return self

    def __ixor__(self, other):
        self._order = None
        set.symmetric_difference_update(self, _plain(other))
        return self

    # -- operations that build new sets return SimSets ---------------------
    def copy(self):
        return SimSet(set.__iter__(self))

    def union(self, *others):
        return SimSet(set.union(self, *[_plain(o) for o in others]))

    def intersection(self, *others):
        return SimSet(set.intersection(self,
                                       *[_plain(o) for o in others]))

    def difference(self, *others):
        return SimSet(set.difference(self,
                                     *[_plain(o) for o in others]))

    def symmetric_difference(self, other):
        return SimSet(set.symmetric_difference(self, _plain(other)))

    def __or__(self, other):
        if not _setlike(other):
            return NotImplemented
        return SimSet(set.union(self, _plain(other)))

    __ror__ = __or__

    def __and__(self, other):
        if not _setlike(other):
            return NotImplemented
        return SimSet(set.intersection(self, _plain(other)))

    __rand__ = __and__

    def __sub__(self, other):
        if not _setlike(other):
            return NotImplemented
        return SimSet(set.difference(self, _plain(other)))

    def __rsub__(self, other):
        if not _setlike(other):
            return NotImplemented
        return SimSet(set.difference(set(_plain(other)), self))

    def __xor__(self, other):
        if not _setlike(other):
            return NotImplemented
        return SimSet(set.symmetric_difference(self, _plain(other)))

    __rxor__ = __xor__

    def __reduce__(self):
        return (SimSet, (list(set.__iter__(self)),))

    def __repr__(self):
        return 'SimSet(' + repr(sorted(set.__iter__(self), key=canon_key)) \
            + ')'

    __str__ = __repr__

    __hash__ = None


_KEYS = type({}.keys())
_ITEMS = type({}.items())


def _setlike(o):
    return isinstance(o, (set, frozenset, _KEYS, _ITEMS))


def _plain(o):
    """An iterable whose iteration does not consult the scheduler."""
    if isinstance(o, SimSet):
        return set.__iter__(o)
    return o


def install(scheduler):
    _SCHED[0] = scheduler
    for name in PATCHED:
        mod = sys.modules.get(name)
        if mod is None:
            __import__(name)
            mod = sys.modules[name]
        mod.__dict__['set'] = SimSet


def set_scheduler(scheduler):
    _SCHED[0] = scheduler


def uninstall():
    _SCHED[0] = None
    for name in PATCHED:
        mod = sys.modules.get(name)
        if mod is not None and mod.__dict__.get('set') is SimSet:
            del mod.__dict__['set']
