"""Evaluates cases in a fresh, completely unpatched interpreter (seam S2).

stdin : JSON list of [case, presentation]
stdout: JSON list of canonical outcomes
The PYTHONHASHSEED of this interpreter is chosen by the parent."""

import json
import os
import sys

HERE = os.path.dirname(os.path.dirname(os.path.abspath(__file__)))
sys.dont_write_bytecode = True
sys.path.insert(0, HERE)
sys.path.insert(0, os.environ.get('VERIF_REPO', '/repo'))


def main():
    from sim import c06, core
    core.assert_repo_import()
    items = json.load(sys.stdin)
    # the library prints on one error path (CTLS/model_checking.py print(e));
    # keep the result channel clean
    real_out = os.fdopen(os.dup(1), 'w')
    devnull = os.open(os.devnull, os.O_WRONLY)
    os.dup2(devnull, 1)
    out = []
    for case, pres in items:
        r = c06.evaluate(case, pres, want_fair=case.get('F') is not None)
        out.append([r['o'], r.get('fair')])
    assert 'sim.simset' not in sys.modules
    json.dump(out, real_out)
    real_out.flush()


if __name__ == '__main__':
    main()
