"""C07 / C19 - the call-history machine.

One run = one history over a pool of Kripke structures, formula objects and
texts, fairness lists and (shared) parsers.  The scheduler decides which
query runs next, which earlier query is repeated, where a call is cut short
(S5: an exception raised at the k-th line event inside repository code) and
- for C19 - which earlier result the caller mutates.

Reference: deep snapshots of the caller's objects, and for every query of the
history the outcome computed in a pristine forked child (a process image in
which no modelcheck call has ever run).
"""

import os
import random
import sys

from . import core, gen
from .runner import run_isolated


class SimAbort(BaseException):
    """Modelled on KeyboardInterrupt: cuts a call short at a line event."""


FAULT_KINDS = {'SimAbort': SimAbort, 'MemoryError': MemoryError,
               'RecursionError': RecursionError}

HOT = ['clone', 'label_fair_states', 'get_fair_states',
       '_remove_state_subformulas', '_checkQuantifiedFormula',
       '_build_atoms', '_checkEU', '_checkEG', 'get_subgraph',
       'replace_labelling_function', 'wrap_subformulas',
       'get_equivalent_non_fair_formula', '__init__']

WEIRD_LABELS = [{'s': 'fair'}, {'s': 'fair0'}, {'s': 'fair1'}, {'i': 7},
                {'t': [{'s': 'p'}]}, {'f': 0.5}, {'s': 'not'}, {'s': 'A'},
                {'s': 'U'}, {'s': 'true'}, {'s': '(p or q)'}, {'s': ''},
                {'s': 'p q'}, {'s': '[p]'}, {'s': 'E'}, {'i': 0},
                {'t': []}, {'s': 'false'}, {'b': True}, {'n': None}]

WEIRD_ATOMS = ['not', 'A', 'U', 'true', '(p or q)', '', 'p q', 'fair',
               'fair0', '[p]', 'zz', 'E(G(p))', 'X', 'p  q', 'p\tq', ' p',
               'fair1', '{req}', '{', '{}', '{0}', '%s', '%(p)s', '%',
               'a.b', 'p,q', "it's", '#p', '$p', 'p;q', '\u00e9t\u00e9']


HAZARD_ATOMS = ['{req}', '{', '{}', '{0}', '%s', '%(p)s', '%', '}{', '{p}']


def _ident(a):
    import re
    return re.match(r'^[a-zA-Z_][a-zA-Z_0-9]*$', a) is not None and \
        a not in gen.RESERVED


# ---------------------------------------------------------------------------
# plan generation (pure)

def _has_ER(tree):
    """Does the formula contain E(a R b)?  (Under fairness constraints the
    library raises TypeError on it: a defect of the fair semantics, C15.)"""
    if tree[0] in ('ap', 'bool'):
        return False
    if tree[0] == 'E' and tree[1][0] == 'R':
        return True
    return any(_has_ER(t) for t in tree[1:])


def _quantified_subtrees(tree, acc):
    if tree[0] in ('A', 'E'):
        acc.append(tree)
    if tree[0] not in ('ap', 'bool'):
        for t in tree[1:]:
            _quantified_subtrees(t, acc)
    return acc


def gen_plan(seed, prop, faults, nested=False):
    rng = random.Random(seed)
    cfg = {
        'prop': prop,
        'faults': bool(faults),
        'nested': bool(nested),
        'nest_rate': rng.choice([0.2, 0.4]) if nested else 0.0,
        'fault_rate': rng.choice([0.1, 0.25]) if faults else 0.0,
        'nstruct': rng.randint(2, 4) if prop == 'C19' else rng.randint(3, 5),
        'nops': rng.choice([rng.randint(10, 40), rng.randint(10, 40),
                            rng.randint(10, 40), rng.randint(40, 70)]),
        'nmax': rng.choice([4, 4, 4, 6]),
        'natoms': rng.choice([2, 3]),
        'weird_labels': rng.random() < (0.7 if prop == 'C19' else 0.35),
        'weird_atoms': rng.random() < (0.5 if prop == 'C19' else 0.3),
        'large': rng.random() < 0.12,
        'hazard_atoms': rng.random() < 0.3,
        'feedback': rng.random() < 0.25,
        'edits': rng.random() < 0.3,
        'fb_seed': rng.getrandbits(32),
        'hetero_states': rng.random() < (0.8 if prop == 'C19' else 0.5),
        'logics': rng.choice([['CTL', 'CTLS', 'LTL'], ['CTL', 'CTLS'],
                              ['CTLS', 'LTL'], ['CTL'], ['CTLS'],
                              ['CTL', 'CTLS', 'LTL']]),
        'fair': rng.random() < 0.6,
        'illformed': prop == 'C07' and rng.random() < 0.6,
        'mutate_p': rng.choice([0.15, 0.3]) if prop == 'C19' else 0.0,
        'depths': rng.choice([[0, 1, 1, 2], [1, 2, 3], [0, 1, 2, 3],
                              [2, 3]]),
    }
    atoms = gen.ATOM_POOL[:cfg['natoms']]
    # formulas ---------------------------------------------------------
    formulas = []     # {'logic': build logic, 'tree':, 'text': bool}
    for logic in cfg['logics']:
        for _ in range(rng.randint(2, 4)):
            d = rng.choice(cfg['depths'])
            fa = list(atoms)
            if rng.random() < 0.3:
                fa.append('zz')          # an atom absent from every structure
            if cfg['fair'] and rng.random() < 0.3:
                # atoms named like the internal fairness label(s)
                if rng.random() < 0.5:
                    fa.append(rng.choice(['fair', 'fair', 'fair0']))
                else:
                    fa = fa[:1] + ['fair', 'fair0'] + \
                        (['fair1'] if rng.random() < 0.3 else [])
            if cfg['weird_atoms'] and rng.random() < 0.5:
                if cfg['hazard_atoms']:
                    # names that are dangerous in format strings
                    fa = fa[:1] + rng.sample(HAZARD_ATOMS, 2)
                else:
                    fa = fa + rng.sample(WEIRD_ATOMS, 2)
            tmax = 2 if logic != 'CTL' else 3
            if d == 0:
                tree = gen._leaf(rng, fa) if logic != 'LTL' else \
                    ['A', gen._leaf(rng, fa)]
            else:
                tree = gen.gen_formula(rng, logic, fa, d, tmax,
                                       rng.choice([0.05, 0.15]))
            if logic == 'CTLS' and rng.random() < (
                    0.5 if cfg['weird_atoms'] else 0.2):
                # the same quantified subformula twice in one formula
                qs = _quantified_subtrees(tree, [])
                if qs:
                    tree = [rng.choice(['And', 'Or']), tree, rng.choice(qs)]
            formulas.append({'logic': logic, 'tree': tree,
                             'text_ok': core.text_writable(tree)})
    if prop == 'C07' and rng.random() < 0.15:
        # an input far deeper than the recursion limit: the call raises
        # RecursionError part-way (an exception caused by the input, not
        # injected); the arguments must be unchanged all the same
        lg = rng.choice([l for l in cfg['logics'] if l != 'LTL'] or ['CTL'])
        formulas.append({'logic': lg, 'tree': ['ap', 'p'], 'text_ok': False,
                         'deep': {'logic': lg,
                                  'kind': 'X' if lg == 'CTLS' else 'Not',
                                  'n': rng.choice([1100, 1500, 3000])},
                         'mc': lg, 'large_ok': False})
        cfg['deep_formula'] = True
    if cfg['weird_atoms'] and rng.random() < 0.5:
        # two formulas that differ in one atom only, the atoms differing in
        # white space only ("p q" / "p  q"): distinct propositions
        base = rng.choice(formulas)
        ats = core.formula_atoms(base['tree'])
        if ats:
            a = rng.choice(ats)
            for tw in ('p q', 'p  q'):
                t2 = core.rename_atoms(base['tree'], {a: tw})
                formulas.append({'logic': base['logic'], 'tree': t2,
                                 'text_ok': True, 'twin': tw})
            cfg['twins'] = True
    if cfg['weird_atoms'] and rng.random() < 0.5:
        # print twins: an atom whose *name* is the text the library prints
        # for a sub-formula ("not p", "(p or q)") next to that sub-formula
        # itself - distinct formulas that print alike
        base = rng.choice(formulas)
        ats = core.formula_atoms(base['tree']) if 'deep' not in base else []
        if ats:
            a = rng.choice(ats)
            nm, sub = rng.choice([
                ('not p', ['Not', ['ap', 'p']]),
                ('(p or q)', ['Or', ['ap', 'p'], ['ap', 'q']]),
                ('(p and q)', ['And', ['ap', 'p'], ['ap', 'q']]),
                ('not q', ['Not', ['ap', 'q']])])

            def subst(t):
                if t[0] == 'ap':
                    return sub if t[1] == a else t
                if t[0] == 'bool':
                    return t
                return [t[0]] + [subst(x) for x in t[1:]]
            for t2 in (core.rename_atoms(base['tree'], {a: nm}),
                       subst(base['tree'])):
                f2 = dict(base)
                f2.update({'tree': t2, 'ptwin': nm,
                           'text_ok': bool(base.get('text_ok')) and
                           core.text_writable(t2)})
                formulas.append(f2)
            cfg['print_twins'] = nm
    cfg['huge_candidate'] = True
    if cfg['large'] or prop == 'C19':
        # shapes that matter on a large structure with a unique marker
        for t2 in (['ap', 'u'], ['E', ['X', ['ap', 'u']]],
                   ['A', ['X', ['Not', ['ap', 'u']]]],
                   ['E', ['F', ['E', ['X', ['ap', 'u']]]]],
                   ['E', ['U', ['ap', 'p'], ['ap', 'u']]]):
            formulas.append({'logic': 'CTL', 'tree': t2, 'text_ok': True,
                             'large_ok': True})
    for f in formulas:
        if f['logic'] == 'CTL' and 'mc' not in f:
            f['large_ok'] = True
    if cfg['illformed']:
        # queries that must be rejected with TypeError (documented behaviour)
        bad = [
            {'logic': 'CTLS', 'tree': ['Or', ['E', ['G', ['ap', 'p']]],
                                       ['X', ['ap', 'q']]], 'mc': 'CTLS'},
            {'logic': 'CTLS', 'tree': ['And', ['A', ['F', ['ap', 'q']]],
                                       ['G', ['ap', 'p']]], 'mc': 'CTLS'},
            {'logic': 'LTL', 'tree': ['A', ['F', ['G', ['ap', 'q']]]],
             'mc': 'CTL'},
            {'logic': 'CTLS', 'tree': ['E', ['F', ['ap', 'p']]], 'mc': 'LTL'},
            {'logic': 'LTL', 'tree': ['U', ['ap', 'p'], ['ap', 'q']],
             'mc': 'LTL'},
            {'logic': 'CTLS', 'tree': ['A', ['U', ['E', ['G', ['ap', 'p']]],
                                             ['X', ['X', ['ap', 'q']]]]],
             'mc': 'CTL'},
        ]
        for b in rng.sample(bad, rng.randint(1, 3)):
            b = dict(b)
            b['text_ok'] = True
            formulas.append(b)
    # structures ---------------------------------------------------------
    structs = []
    for k in range(cfg['nstruct']):
        nmax = cfg['nmax']
        shape = None
        if cfg['fair'] and rng.random() < 0.5:
            shape = 'fairfriendly'
        A = gen.gen_abstract_kripke(rng, nmax, atoms, None, shape)
        n = A['n']
        if rng.random() < 0.12:
            A['lab'] = [[] for _ in range(n)]     # an unlabelled structure
        if cfg['hetero_states']:
            fam = rng.choice(gen.FAMILIES)
        else:
            fam = rng.choice(['int', 'int', 'permint', 'str'])
        smap = gen.state_family(rng, n, fam)
        labs = []
        for i in range(n):
            l = [{'s': a} for a in A['lab'][i]]
            if cfg['weird_labels']:
                for w in WEIRD_LABELS:
                    if rng.random() < 0.08:
                        l.append(w)
                if rng.random() < 0.25:
                    # a label that looks like the fresh atom the CTL* checker
                    # would generate for a quantified subformula of the pool
                    qs = []
                    for fi, f in enumerate(formulas):
                        if f['logic'] != 'LTL':
                            for q in _quantified_subtrees(f['tree'], []):
                                qs.append([f['logic'], q])
                    if qs:
                        l.append({'fresh_of': rng.choice(qs)})
            labs.append(l)
        F = []
        if cfg['fair']:
            for _ in range(rng.randint(0, 2)):
                F.append(gen.gen_fairness(rng, n))
            if not F and shape == 'fairfriendly':
                F.append(gen.gen_fairness(rng, n))
            if rng.random() < 0.2:
                F.append([])          # no constraint at all: F=[]
            if F and rng.random() < 0.7:
                # same union of states, different partition
                union = sorted(set(x for P in F[0] for x in P))
                if len(union) < 2 and n >= 2:
                    union = sorted(rng.sample(range(n), 2))
                    F[0] = [union]
                if len(union) >= 2:
                    if len(F[0]) == 1:
                        F.append([[x] for x in union])
                    else:
                        F.append([union])
            if rng.random() < 0.3 and n >= 1:
                E = gen.uniformise_selfloops(rng, n, A['E'])
                A['E'] = E
        if cfg['fair'] and rng.random() < 0.3:
            for i in rng.sample(range(n), rng.randint(1, n)):
                labs[i].append({'s': rng.choice(['fair', 'fair', 'fair0'])})
        if cfg.get('twins'):
            for i in range(n):
                if rng.random() < 0.4:
                    labs[i].append({'s': rng.choice(['p q', 'p  q'])})
        if cfg.get('print_twins'):
            for i in range(n):
                if rng.random() < 0.4:
                    labs[i].append({'s': cfg['print_twins']})
        structs.append({'A': A, 'family': fam, 'smap': smap, 'labs': labs,
                        'labtype': rng.choice(['list', 'list', 'tuple',
                                               'set', 'frozenset']),
                        'F': F,
                        'S0': sorted(rng.sample(range(n),
                                                rng.randint(0, n)))})
    if cfg['fair'] and len(structs) >= 2 and rng.random() < 0.3:
        # two structures over the same kind of states and ONE fairness
        # object used for both; a constraint names a state that only the
        # larger structure has (legal: states outside K are ignored)
        a, b = rng.sample(range(len(structs)), 2)
        na, nb = structs[a]['A']['n'], structs[b]['A']['n']
        if na > nb:
            a, b, na, nb = b, a, nb, na
        if na < nb:
            for k in (a, b):
                structs[k]['family'] = 'int'
                structs[k]['smap'] = [{'i': v} for v in
                                      range(structs[k]['A']['n'])]
            inside = rng.randrange(na)
            foreign = rng.randrange(na, nb)
            structs[a]['F'] = [[[inside, foreign]]] + structs[a]['F'][:1]
            structs[b]['F'] = [{'same_as': a, 'index': 0}] + \
                structs[b]['F'][:1]
            # shapes on which fairness makes a difference: the larger
            # structure has two fair components, the foreign state lies in
            # the second one
            structs[a]['A']['E'] = gen.gen_graph(rng, na, 'fairfriendly')
            structs[b]['A']['E'] = gen.gen_graph(rng, nb, 'twocycles')
            if nb // 2 >= 1 and foreign < nb // 2 and nb - 1 >= na:
                foreign = rng.randrange(max(na, nb // 2), nb)
                structs[a]['F'][0] = [[inside, foreign]]
            cfg['shared_F'] = [a, b]
    if rng.random() < 0.05:
        # the structure without states (vacuously total)
        structs.append({'A': {'n': 0, 'E': [], 'lab': []}, 'family': 'int',
                        'smap': [], 'labs': [],
                        'F': [[], [[]]] if cfg['fair'] else [],
                        'S0': []})
    if prop == 'C19' and rng.random() < 0.02:
        # a long corridor: 1 100-1 500 states in a chain that ends in a
        # self-loop (deep paths, shallow everything else); CTL queries only
        n = rng.choice([1100, 1300])
        E = [[i, i + 1] for i in range(n - 1)] + [[n - 1, n - 1]]
        if rng.random() < 0.4:
            # ... or one long cycle
            E[-1] = [n - 1, 0]
        # every labelling routine gets to walk the whole corridor
        for t2 in (['E', ['G', ['ap', 'p']]], ['A', ['F', ['ap', 'u']]],
                   ['A', ['G', ['ap', 'p']]],
                   ['E', ['G', ['Not', ['ap', 'u']]]],
                   ['A', ['U', ['ap', 'p'], ['ap', 'u']]]):
            formulas.append({'logic': 'CTL', 'tree': t2, 'text_ok': True,
                             'large_ok': True, 'corridor': True})
        lab = [['p'] for _ in range(n)]
        lab[n - 1] = ['p', 'u']
        structs.append({'A': {'n': n, 'E': E, 'lab': lab}, 'family': 'tuple',
                        'smap': [{'t': [{'s': 'c'}, {'i': i}]}
                                 for i in range(n)],
                        'labs': [[{'s': a} for a in l] for l in lab],
                        'F': [], 'S0': [0], 'large': True, 'huge': True})
        cfg['large'] = True
        cfg['huge'] = True
    elif cfg['large']:
        n = rng.randint(32, 45)
        A = gen.gen_abstract_kripke(rng, n, atoms, 0.2,
                                    rng.choice(['random', 'fairfriendly',
                                                'cycle']))
        while A['n'] < 32:
            A = gen.gen_abstract_kripke(rng, n, atoms, 0.2, 'random')
        n = A['n']
        fam = rng.choice(['int', 'str', 'tuple', 'permint'])
        if fam == 'permint':
            smap = [{'i': v} for v in rng.sample(range(-5, 200), n)]
        elif fam == 'str':
            smap = [{'s': 's{}'.format(v)} for v in rng.sample(range(500), n)]
        elif fam == 'tuple':
            smap = [{'t': [{'s': 's'}, {'i': v}]}
                    for v in rng.sample(range(500), n)]
        else:
            smap = [{'i': v} for v in range(n)]
        labs = [[{'s': a} for a in A['lab'][i]] for i in range(n)]
        labs[rng.randrange(n)].append({'s': 'u'})     # a unique marker
        structs.append({'A': A, 'family': fam, 'smap': smap, 'labs': labs,
                        'F': [], 'S0': [], 'large': True})
    # operations -----------------------------------------------------------
    ops = []
    calls = []        # indices of ops that are calls

    large_ok = [fi for fi, f in enumerate(formulas) if f.get('large_ok')]

    def gen_query():
        fi = rng.randrange(len(formulas))
        f = formulas[fi]
        ki = rng.randrange(len(structs))
        if structs[ki].get('large'):
            # large structures are only queried through CTL (the tableau
            # checkers are exponential)
            if large_ok and rng.random() < 0.8:
                fi = rng.choice(large_ok)
                if structs[ki].get('huge') and rng.random() < 0.5:
                    fi = rng.choice([x for x in large_ok
                                     if formulas[x].get('corridor')])
                f = formulas[fi]
            else:
                ki = rng.randrange(len(structs) - 1)
        q = {'k': ki, 'f': fi, 'mc': f.get('mc', f['logic']),
             'form': 'obj', 'F': None, 'parser': 'none'}
        if f['text_ok'] and rng.random() < 0.3:
            q['form'] = 'text'
            # a fresh default parser costs ~90 ms of Lark grammar analysis
            q['parser'] = rng.choice(['none', 'shared', 'shared'])
        if structs[ki]['F'] and rng.random() < (
                (0.6 if prop == 'C07' else 0.25) *
                (0.4 if q['mc'] == 'LTL' else 1.0)):
            # (LTL with F raises TypeError on the pinned tree - C15 - but the
            # call is cheap and becomes meaningful once that is repaired)
            q['F'] = rng.randrange(len(structs[ki]['F']))
        return q

    for _ in range(cfg['nops']):
        if cfg['edits'] and calls and rng.random() < 0.08:
            # the caller edits a structure between two calls, through the
            # public API (labels(s) hands out the label set itself)
            ki = rng.randrange(len(structs))
            if not structs[ki].get('large') and structs[ki]['A']['n'] > 0:
                ops.append({'op': 'edit', 'k': ki,
                            'i': rng.randrange(structs[ki]['A']['n']),
                            'how': rng.choice(['add', 'discard', 'toggle',
                                               'replace', 'replace_extra']),
                            'label': rng.choice(atoms)})
                # ask something about that structure again soon
                prev = [j for j in calls if ops[j]['q']['k'] == ki]
                if prev and rng.random() < 0.8:
                    ops.append({'op': 'call',
                                'q': dict(ops[rng.choice(prev)]['q'])})
                    calls.append(len(ops) - 1)
                continue
        r = rng.random()
        if calls and r < cfg['mutate_p']:
            j = rng.choice(calls)
            ops.append({'op': 'mutate', 'of': j,
                        'how': rng.choice(['add_junk', 'clear', 'discard',
                                           'update', 'pop', 'add_state'])})
            # re-issue the same query right away half of the time
            if rng.random() < 0.6:
                ops.append({'op': 'call', 'q': dict(ops[j]['q'])})
                calls.append(len(ops) - 1)
            continue
        if calls and r < cfg['mutate_p'] + 0.25:
            j = rng.choice(calls)
            q = dict(ops[j]['q'])
            if rng.random() < 0.3:
                # same formula, other structure
                q['k'] = rng.randrange(len(structs))
                if structs[q['k']].get('large') and \
                        not formulas[q['f']].get('large_ok'):
                    q['k'] = 0
                if q['F'] is not None and not structs[q['k']]['F']:
                    q['F'] = None
                elif q['F'] is not None:
                    q['F'] = rng.randrange(len(structs[q['k']]['F']))
            op = {'op': 'call', 'q': q}
        else:
            op = {'op': 'call', 'q': gen_query()}
        if cfg['faults'] and rng.random() < cfg['fault_rate']:
            op['fault'] = {'kind': rng.choice(['SimAbort', 'SimAbort',
                                               'MemoryError',
                                               'RecursionError']),
                           'u': rng.random()}
            if rng.random() < 0.5:
                op['fault']['in'] = rng.choice(HOT)
        elif cfg['nested'] and rng.random() < cfg['nest_rate'] and \
                not formulas[op['q']['f']].get('deep'):
            # (not inside a call on a deep formula: the nested call would run
            # with the stack almost exhausted and raise RecursionError for
            # that reason alone - an artefact of nesting, seen as 8
            # EXTENSION-FINDING lines in 21 000 runs of the unchanged tree)
            # a complete second call runs at a line event inside this one
            if calls and rng.random() < 0.5:
                q2 = dict(ops[rng.choice(calls)]['q'])
            else:
                q2 = gen_query()
            op['nest'] = {'q': q2, 'u': rng.random()}
            if rng.random() < 0.5:
                op['nest']['in'] = rng.choice(HOT)
        ops.append(op)
        calls.append(len(ops) - 1)
        if op['q']['F'] is not None and rng.random() < 0.4:
            # same structure, same fairness list, another formula
            q3 = dict(op['q'])
            cands = [fi for fi, f in enumerate(formulas)
                     if 'mc' not in f and f['logic'] != 'LTL']
            fairish = [fi for fi in cands if any(
                a.startswith('fair')
                for a in core.formula_atoms(formulas[fi]['tree']))]
            if fairish and rng.random() < 0.6:
                cands = fairish
            if cands:
                q3['f'] = rng.choice(cands)
                q3['mc'] = formulas[q3['f']]['logic']
                q3['form'] = 'obj'
                q3['parser'] = 'none'
                ops.append({'op': 'call', 'q': q3})
                calls.append(len(ops) - 1)
    if cfg.get('shared_F'):
        # make sure the shared fairness object is used on the smaller
        # structure first and on the larger one afterwards
        a, b = cfg['shared_F']
        cands = [fi for fi, f in enumerate(formulas)
                 if 'mc' not in f and f['logic'] != 'LTL']
        if cands:
            for _ in range(2):
                fi = rng.choice(cands)
                qa = {'k': a, 'f': fi, 'mc': formulas[fi]['logic'],
                      'form': 'obj', 'F': 0, 'parser': 'none'}
                qb = dict(qa, k=b)
                pos = rng.randint(0, len(ops))
                ops = [dict(o, of=o['of'] + 1)
                       if o['op'] == 'mutate' and o['of'] >= pos else o
                       for o in ops]
                ops.insert(pos, {'op': 'call', 'q': qa})
                ops.append({'op': 'call', 'q': qb})
    return {'prop': prop, 'cfg': cfg, 'formulas': formulas,
            'structs': structs, 'ops': ops}


# ---------------------------------------------------------------------------
# execution

class Violation(Exception):
    def __init__(self, cls, detail):
        Exception.__init__(self, cls + ': ' + detail)
        self.cls = cls
        self.detail = detail


def _canon_outcome(res, K):
    if not isinstance(res, set):
        return ['nonset', type(res).__name__]
    try:
        return ['ok', core.canon_states(set.__iter__(res))]
    except core.HarnessError:
        return ['ok-unencodable', len(res)]


class Pool(object):
    def __init__(self, plan):
        from pyModelChecking import Kripke
        core.reset_objects()
        self.plan = plan
        self.formulas = []
        for f in plan['formulas']:
            try:
                if f.get('deep'):
                    self.formulas.append(core.build_deep_formula(f['deep']))
                else:
                    self.formulas.append(core.build_formula(f['tree'],
                                                            f['logic']))
            except TypeError:
                self.formulas.append(None)
        self.texts = [core.formula_text(f['tree']) if f['text_ok'] else None
                      for f in plan['formulas']]
        self.K = []
        self.F = []
        self.index = []
        for s in plan['structs']:
            A = s['A']
            vals = [core.dec_value(e) for e in s['smap']]
            R = [(vals[a], vals[b]) for a, b in A['E']]
            L = {}
            for i, labs in enumerate(s['labs']):
                out = []
                for e in labs:
                    if 'fresh_of' in e:
                        lg, tr = e['fresh_of']
                        out.append('[{}]'.format(core.build_formula(tr, lg)))
                    else:
                        out.append(core.dec_value(e))
                lt = s.get('labtype', 'list')
                L[vals[i]] = {'tuple': tuple, 'set': set,
                              'frozenset': frozenset}.get(lt, list)(out)
            S0 = [vals[i] for i in s.get('S0', [])]
            self.K.append(Kripke(vals, S0, R, L))
            Fs = []
            for Fl in s['F']:
                if isinstance(Fl, dict):
                    Fs.append(Fl)        # resolved below
                else:
                    # plain ints may name states the structure does not have
                    Fs.append([set(vals[i] if i < len(vals) else i
                                   for i in P) for P in Fl])
            self.F.append(Fs)
        for Fs in self.F:
            for j, Fl in enumerate(Fs):
                if isinstance(Fl, dict):
                    # the very same fairness object as another structure's
                    Fs[j] = self.F[Fl['same_as']][Fl['index']]
        self.parsers = {}

    def snapshot(self):
        snap = []
        for K in self.K:
            snap.append([core.snapshot_kripke(K), core.container_ids(K)])
        fs = [core.snapshot_formula(f) if f is not None else None
              for f in self.formulas]
        Fs = [[[core.canon_states(P) for P in Fl] for Fl in Fk]
              for Fk in self.F]
        return [snap, fs, Fs]

    def parser(self, logic):
        if logic not in self.parsers:
            self.parsers[logic] = core.lang_module(logic).Parser()
        return self.parsers[logic]

    def apply_edit(self, op):
        """The caller changes the labelling of one state in place.  An edit
        the library refuses (raises) is simply not made - in the history and
        in the pristine child alike."""
        try:
            self._apply_edit(op)
        except core.HarnessError:
            raise
        except Exception:
            pass

    def _apply_edit(self, op):
        K = self.K[op['k']]
        st = list(K.states())[op['i']]
        lab = op['label']
        if op['how'] in ('replace', 'replace_extra'):
            L = dict((s, set(K.labels(s))) for s in K.states())
            if op['how'] == 'replace_extra':
                # a labelling that also mentions something that is not a
                # state (replace_labelling_function takes any dict)
                L['retired-state'] = set([lab, 'p'])
            if lab in L[st]:
                L[st].discard(lab)
            else:
                L[st].add(lab)
            K.replace_labelling_function(L)
            return
        cur = K.labels(st)
        if op['how'] == 'add' or (op['how'] == 'toggle' and lab not in cur):
            cur.add(lab)
        else:
            cur.discard(lab)

    def call(self, q):
        """Issue one query; returns the raw result (or raises)."""
        mc = core.lang_module(q['mc']).modelcheck
        K = self.K[q['k']]
        if q['form'] == 'text':
            f = self.texts[q['f']]
        else:
            f = self.formulas[q['f']]
            if f is None:
                raise core.HarnessError('formula {} not buildable'
                                        .format(q['f']))
        kw = {}
        if q['parser'] == 'shared' and q['form'] == 'text':
            kw['parser'] = self.parser(q['mc'])
        if q['F'] is not None:
            kw['F'] = self.F[q['k']][q['F']]
        return mc(K, f, **kw)


def qkey(q):
    return core.cjson(q)


def _trace_pred():
    pkg = os.path.realpath(core.REPO_PKG) + os.sep
    tests = pkg + 'tests' + os.sep
    cache = {}

    def pred(fn):
        r = cache.get(fn)
        if r is None:
            rp = os.path.realpath(fn) if not fn.startswith('<') else fn
            r = rp.startswith(pkg) and not rp.startswith(tests)
            cache[fn] = r
        return r
    return pred


def pristine_outcome(arg):
    """Runs in a forked child of the history process, before any operation."""
    pool, q, want_lines, edits = arg
    for e in edits:
        pool.apply_edit(e)
    out = {}
    try:
        res = pool.call(q)
        out['o'] = _canon_outcome(res, pool.K[q['k']])
    except core.HarnessError:
        raise
    except Exception as e:
        out['o'] = ['raise', type(e).__name__]
    if want_lines:
        pred = _trace_pred()
        st = {'n': 0, 'ranges': {}}

        def local(frame, event, arg):
            if event == 'line':
                st['n'] += 1
                nm = frame.f_code.co_name
                if nm in HOT:
                    r = st['ranges'].get(nm)
                    if r is None:
                        st['ranges'][nm] = [st['n'], st['n']]
                    else:
                        r[1] = st['n']
            return local

        def glob(frame, event, arg):
            if pred(frame.f_code.co_filename):
                return local
            return None
        sys.settrace(glob)
        try:
            pool.call(q)
        except Exception:
            pass
        finally:
            sys.settrace(None)
        out['lines'] = st['n']
        out['ranges'] = st['ranges']
    return out


JUNK = 'not-a-state-of-K'


def execute(plan):
    core.assert_repo_import()
    prop = plan['prop']
    pool = Pool(plan)
    snap0 = pool.snapshot()
    ops = plan['ops']
    probes = {}
    faults = {}
    counters = {'swallowed_fault_returns': 0,
                'swallowed_fault_returns_differing': 0}

    def probe(name, n=1):
        probes[name] = probes.get(name, 0) + n

    # -- pristine outcomes (S6): forked before any operation --------------
    need_lines = set()
    distinct = {}         # query key -> query
    epochs = {}           # (query key, epoch) -> True
    edit_ops = [op for op in ops if op['op'] == 'edit']
    ep = 0
    for op in ops:
        if op['op'] == 'edit':
            ep += 1
        if op['op'] == 'call':
            k = qkey(op['q'])
            distinct.setdefault(k, op['q'])
            epochs[(k, ep)] = True
            if 'fault' in op or 'nest' in op:
                need_lines.add((k, ep))
            if 'nest' in op:
                k2 = qkey(op['nest']['q'])
                distinct.setdefault(k2, op['nest']['q'])
                epochs[(k2, ep)] = True
    final_epoch = ep
    for k in distinct:
        epochs[(k, final_epoch)] = True
    pristine = {}
    for (k, e) in sorted(epochs):
        st, r = run_isolated(pristine_outcome,
                             (pool, distinct[k], (k, e) in need_lines,
                              edit_ops[:e]), 200)
        if st != 'ok':
            raise core.HarnessError('pristine child: {} {}'.format(st, r))
        pristine[(k, e)] = r
    wellformed = {}
    inlogic = {}
    c15_typeerror = {}
    for k, q in distinct.items():
        f = plan['formulas'][q['f']]
        wellformed[k] = ('mc' not in f) and q['F'] is None
        inlogic[k] = 'mc' not in f
        c15_typeerror[k] = q['mc'] == 'LTL' or _has_ER(f['tree'])

    raw_first = {}        # (query key, epoch) -> first raw result of the run
    results = {}          # op index -> [set object, value at return, mutated]
    events = []
    pred = _trace_pred()
    fstate = {'armed': None, 'n': 0, 'fired': None, 'nested_out': None}

    def local(frame, event, arg):
        if event == 'line' and fstate['armed'] is not None:
            fstate['n'] += 1
            if fstate['n'] == fstate['armed'][0]:
                kind = fstate['armed'][1]
                fstate['armed'] = None
                fstate['fired'] = [frame.f_code.co_name,
                                   os.path.basename(
                                       frame.f_code.co_filename),
                                   frame.f_lineno]
                if kind == 'nested':
                    # a complete call B in the middle of call A (tracing is
                    # suspended by the interpreter inside a trace function)
                    q2 = fstate['nested_q']
                    try:
                        r2 = pool.call(q2)
                        fstate['nested_out'] = _canon_outcome(
                            r2, pool.K[q2['k']])
                    except core.HarnessError:
                        raise
                    except Exception as e:
                        fstate['nested_out'] = ['raise', type(e).__name__]
                    return local
                raise FAULT_KINDS[kind]('injected by the simulator')
        return local

    def glob(frame, event, arg):
        if pred(frame.f_code.co_filename):
            return local
        return None

    def check_I1(i, what):
        now = pool.snapshot()
        if now != snap0:
            which = []
            for k in range(len(pool.K)):
                if now[0][k][0] != snap0[0][k][0]:
                    which.append('structure {} content: {} -> {}'.format(
                        k, core.cjson(snap0[0][k][0])[:300],
                        core.cjson(now[0][k][0])[:300]))
                elif now[0][k][1] != snap0[0][k][1]:
                    # equal content in a different container object: not
                    # what the statement forbids; recorded, not reported
                    probe('container_identity_changed_content_equal')
                    snap0[0][k][1] = now[0][k][1]
            for k in range(len(pool.formulas)):
                if now[1][k] != snap0[1][k]:
                    which.append('formula object {} changed'.format(k))
            if now[2] != snap0[2]:
                # the statement names the structure and the formula, not the
                # fairness containers: recorded; any consequence for a later
                # call with the same container is I2's business
                probe('fairness_container_changed')
                snap0[2] = now[2]
            if not which:
                return
            raise Violation(prop + '/I1-arguments-modified',
                            'after op {} ({}): {}'.format(
                                i, what, '; '.join(which)[:900]))

    def check_K3(i):
        for j, (obj, val, mutated) in results.items():
            if mutated:
                continue
            try:
                cur = core.canon_states(set.__iter__(obj))
            except Exception:
                cur = None
            if cur != val:
                raise Violation(
                    'C19/K3-result-not-owned',
                    'the set returned by op {} changed from {} to {} '
                    'during op {} although the caller did not touch it'
                    .format(j, core.cjson(val)[:200],
                            core.cjson(cur)[:200], i))

    epoch = [0]

    def do_call(i, op, final=False):
        q = op['q']
        k = qkey(q)
        ref = pristine[(k, epoch[0])]
        fault = op.get('fault') if not final else None
        nest = op.get('nest') if not final else None
        if nest is not None:
            fault = {'kind': 'nested', 'u': nest['u'], 'in': nest.get('in')}
            fstate['nested_q'] = nest['q']
            fstate['nested_out'] = None
        fired = None
        armed = False
        if fault is not None:
            n = ref.get('lines', 0)
            kk = None
            if n > 0:
                if fault.get('in') in ref.get('ranges', {}):
                    a, b = ref['ranges'][fault['in']]
                    kk = a + int(fault['u'] * (b - a + 1))
                    kk = min(kk, b)
                else:
                    kk = 1 + int(fault['u'] * n)
                    kk = min(kk, n)
            if kk is not None:
                fstate['armed'] = (kk, fault['kind'])
                fstate['n'] = 0
                fstate['fired'] = None
                armed = True
                sys.settrace(glob)
        out = None
        res = None
        try:
            try:
                res = pool.call(q)
                out = _canon_outcome(res, pool.K[q['k']])
            finally:
                if armed:
                    sys.settrace(None)
                    fired = fstate['fired']
                    fstate['armed'] = None
        except core.HarnessError:
            raise
        except SimAbort:
            out = ['aborted', 'SimAbort']
        except Exception as e:
            out = ['raise', type(e).__name__]
        if nest is not None:
            if fired is not None:
                faults['nested_call'] = faults.get('nested_call', 0) + 1
                probe('nested_call_inside_' + fired[0].strip('_'))
                ref2 = pristine[(qkey(nest['q']), epoch[0])]
                if fstate['nested_out'] != ref2['o']:
                    q2 = nest['q']
                    raise Violation(
                        prop + '/I2-depends-on-history',
                        'op {}: {}.modelcheck(structure {}, formula {}) '
                        'run at a line event inside {} of another call '
                        'gave {} but {} in a process with no history'
                        .format(i, q2['mc'], q2['k'], q2['f'], fired[0],
                                core.cjson(fstate['nested_out'])[:300],
                                core.cjson(ref2['o'])[:300]))
            # the outer call must be unaffected by the nested one
            fired = None
            fault = None
        if fired is None:
            probe('calls_' + (out[0] if out[0] != 'raise'
                              else 'raised_' + out[1]))
        if fired is not None:
            faults[fault['kind']] = faults.get(fault['kind'], 0) + 1
            probe('fault_fired_in_' + fired[0].strip('_'))
            if out[0] in ('ok', 'nonset', 'ok-unencodable'):
                counters['swallowed_fault_returns'] += 1
                if out != ref['o']:
                    counters['swallowed_fault_returns_differing'] += 1
        elif fault is not None and nest is None:
            probe('fault_armed_but_not_reached')
        # I2: a call in which no fault fired behaves as in a pristine process
        if fired is None and out != ref['o']:
            raise Violation(
                prop + '/I2-depends-on-history',
                'op {}{}: {}.modelcheck(structure {}, formula {} [{}], '
                'F={}, parser={}) gave {} but {} in a process with no '
                'history'.format(
                    i, ' (final re-issue)' if final else '', q['mc'], q['k'],
                    q['f'], q['form'], q['F'], q['parser'],
                    core.cjson(out)[:300], core.cjson(ref['o'])[:300]))
        if fired is None and nest is None and isinstance(res, set):
            # repeating a call must return an EQUAL set - equal as Python
            # sets of the caller's own state objects, not merely equal after
            # canonical encoding (copies of identity-compared states encode
            # alike but are different objects)
            kk = (k, epoch[0])
            prev = raw_first.get(kk)
            if prev is None:
                raw_first[kk] = set(set.__iter__(res))
            elif set(set.__iter__(res)) != prev:
                raise Violation(
                    prop + '/I2-repeat-unequal',
                    'op {}{}: repeating {}.modelcheck(structure {}, formula '
                    '{}) returned a set that is not == to the one returned '
                    'before ({} vs {} elements; same canonical encoding: {})'
                    .format(i, ' (final re-issue)' if final else '', q['mc'],
                            q['k'], q['f'], len(res), len(prev),
                            out == ref['o']))
        if prop == 'C19' and fired is None:
            if wellformed[k] and out[0] == 'raise':
                raise Violation('C19/K1-internal-error',
                                'op {}: well-formed query raised {}'
                                .format(i, out[1]))
            if out[0] == 'raise' and inlogic[k] and out[1] not in (
                    'UnexpectedToken', 'UnexpectedCharacters') and not (
                    out[1] == 'TypeError' and c15_typeerror[k]):
                # a formula of the called logic with F given: any exception
                # is an internal error, except the TypeError of the two
                # defects of the fair semantics that belong to C15 (not
                # claimed): LTL with F, and a formula containing E(a R b)
                raise Violation('C19/K1-internal-error',
                                'op {}: query with fairness constraints '
                                'raised {}'.format(i, out[1]))
            if out[0] == 'nonset':
                raise Violation('C19/K2-not-a-set',
                                'op {}: returned a {}'.format(i, out[1]))
            if res is not None and isinstance(res, set):
                states = pool.K[q['k']].states()
                bad = [s for s in set.__iter__(res) if s not in states]
                if bad:
                    raise Violation('C19/K2-non-states',
                                    'op {}: result contains {} objects that '
                                    'are not states of the structure'
                                    .format(i, len(bad)))
                if not final:
                    for j, (obj, _, _) in results.items():
                        if obj is res:
                            probe('result_object_identical_to_earlier_one')
                    results[i] = [res, out[1] if out[0] == 'ok' else None,
                                  False]
        return out

    def do_mutate(i, op):
        ent = results.get(op['of'])
        if ent is None or not isinstance(ent[0], set):
            return ['skipped']
        obj = ent[0]
        how = op['how']
        qq = ops[op['of']]['q']
        states = list(pool.K[qq['k']].states())
        if how == 'add_junk':
            obj.add(JUNK)
        elif how == 'clear':
            obj.clear()
        elif how == 'discard':
            if len(obj):
                obj.discard(sorted(set.__iter__(obj),
                                   key=core.canon_key)[0])
        elif how == 'pop':
            if len(obj):
                obj.discard(sorted(set.__iter__(obj),
                                   key=core.canon_key)[-1])
        elif how == 'add_state':
            for s in states:
                if s not in obj:
                    obj.add(s)
                    break
        elif how == 'update':
            obj.update(states)
            obj.add(JUNK)
        ent[2] = True
        faults['caller_mutated_result_' + how] = \
            faults.get('caller_mutated_result_' + how, 0) + 1
        return ['mutated', how]

    violation = None
    i = -1
    seen_q = {}
    try:
        for i, op in enumerate(ops):
            if op['op'] == 'nop':
                continue
            if op['op'] == 'edit':
                pool.apply_edit(op)
                epoch[0] += 1
                faults['caller_edited_structure'] = \
                    faults.get('caller_edited_structure', 0) + 1
                # the caller's own change is the new reference content
                now = pool.snapshot()
                snap0[0] = now[0]
                events.append([i, 'edit', [op['k'], op['i'], op['how']]])
                if prop == 'C19':
                    check_K3(i)
                continue
            if op['op'] == 'call':
                k = qkey(op['q'])
                if k in seen_q and i - seen_q[k] > 3:
                    probe('same_query_after_3_other_ops')
                seen_q[k] = i
                out = do_call(i, op)
                what = 'call'
            else:
                out = do_mutate(i, op)
                what = 'mutate'
            events.append([i, what, out])
            check_I1(i, what)
            if prop == 'C19':
                check_K3(i)
        # I3: everything once more, fault-free
        for k in sorted(distinct):
            i += 1
            out = do_call(i, {'op': 'call', 'q': distinct[k]}, final=True)
            events.append([i, 'final', out])
            check_I1(i, 'final re-issue')
            if prop == 'C19':
                check_K3(i)
    except Violation as v:
        violation = {'class': v.cls, 'detail': v.detail, 'step': i}

    # probes on the shape of the history
    fq = {}
    for op in ops:
        if op['op'] == 'call':
            fq.setdefault(op['q']['f'], set()).add(op['q']['k'])
    if any(len(v) >= 2 for v in fq.values()):
        probe('same_formula_on_2_structures')
    if any(op['op'] == 'call' and op['q']['parser'] == 'shared'
           for op in ops):
        probe('shared_parser_used')
    forms = {}
    for op in ops:
        if op['op'] == 'call':
            forms.setdefault(op['q']['f'], set()).add(op['q']['form'])
    if any(len(v) == 2 for v in forms.values()):
        probe('text_and_object_form_of_one_formula')
    if any(op['op'] == 'call' and op['q']['F'] is not None for op in ops):
        probe('fairness_query')
    nraise = sum(1 for e in events if e[2] and e[2][0] == 'raise')
    if nraise:
        probe('calls_that_raised', nraise)
    repeated = len(seen_q) < sum(1 for op in ops if op['op'] == 'call')
    mut_requery = False
    for a, op in enumerate(ops):
        if op['op'] == 'mutate':
            qk = qkey(ops[op['of']]['q'])
            if any(o['op'] == 'call' and qkey(o['q']) == qk
                   for o in ops[a + 1:]) or True:
                mut_requery = True    # the final re-issue always re-queries
    fired_total = sum(v for k, v in faults.items() if k in FAULT_KINDS)
    if prop == 'C07':
        nontrivial = len(pool.K) >= 2 and repeated and \
            (not plan['cfg']['faults'] or fired_total >= 1) and \
            (not plan['cfg'].get('nested') or
             faults.get('nested_call', 0) >= 1)
    else:
        nontrivial = any(k.startswith('caller_mutated') for k in faults) \
            and mut_requery
    return {'violation': violation, 'steps': len(events),
            'events_digest': core.digest(events), 'probes': probes,
            'faults': faults, 'counters': counters,
            'nontrivial': bool(nontrivial), 'tail': events[-4:],
            'pristine_calls': len(pristine)}


# ---------------------------------------------------------------------------
# name feedback: a plan transformation executed in an isolated child

def materialise_feedback(plan):
    """Harvest the names the library generates internally while it answers
    the plan's queries (strings returned by non-dunder repository functions
    that are neither labels nor atoms of the pool: fresh atoms, the fairness
    label), then extend the plan with formulas that use those very names as
    ordinary atomic propositions - a user may call a proposition anything.
    Deterministic given the plan and the code; the extended plan is explicit
    (it is what replay files contain)."""
    core.assert_repo_import()
    pool = Pool(plan)
    pred = _trace_pred()
    known = set()
    for f in plan['formulas']:
        known.update(core.formula_atoms(f['tree']))
    for K in pool.K:
        for labs in K._labels.values():
            for x in labs:
                if isinstance(x, str):
                    known.add(x)
        for st in K._next:
            if isinstance(st, str):
                known.add(st)
    harvested = []

    def local(frame, event, arg):
        if event == 'return' and isinstance(arg, str) and \
                not frame.f_code.co_name.startswith('__') and \
                len(arg) <= 40 and arg not in known and \
                arg not in harvested and 'expected' not in arg and \
                core.atom_text(arg) is not None:
            harvested.append(arg)
        return local

    def glob(frame, event, arg):
        if pred(frame.f_code.co_filename):
            return local
        return None

    seen = set()
    for op in plan['ops']:
        if op['op'] != 'call' or qkey(op['q']) in seen:
            continue
        seen.add(qkey(op['q']))
        if op['q']['mc'] == 'LTL' or plan['structs'][op['q']['k']].get(
                'large'):
            continue
        sys.settrace(glob)
        try:
            pool.call(op['q'])
        except Exception:
            pass
        finally:
            sys.settrace(None)
        if len(harvested) >= 12:
            break
    out = dict(plan)
    out['cfg'] = dict(plan['cfg'], feedback=False, feedback_done=True,
                      harvested=harvested[:12])
    if not harvested:
        return out
    rng = random.Random(plan['cfg']['fb_seed'])
    formulas = list(plan['formulas'])
    ops = list(plan['ops'])
    calls = [dict(o['q']) for o in ops if o['op'] == 'call'
             and 'mc' not in plan['formulas'][o['q']['f']]
             and o['q']['mc'] != 'LTL'
             and not plan['structs'][o['q']['k']].get('large')]
    if not calls:
        return out
    # the names generated first are the ones a process without history
    # would generate again
    first = harvested[:5]
    for h in rng.sample(first, min(3, len(first))):
        q = dict(rng.choice(calls))
        base = plan['formulas'][q['f']]
        how = rng.choice(['and_not', 'or', 'replace'])
        ats = core.formula_atoms(base['tree'])
        if how == 'replace' and ats:
            tree = core.rename_atoms(base['tree'], {rng.choice(ats): h})
        elif how == 'or':
            tree = ['Or', base['tree'], ['ap', h]]
        else:
            tree = ['And', base['tree'], ['Not', ['ap', h]]]
        formulas.append({'logic': base['logic'], 'tree': tree,
                         'text_ok': core.text_writable(tree),
                         'feedback_of': h})
        q['f'] = len(formulas) - 1
        q['form'] = 'obj'
        q['parser'] = 'none'
        # once somewhere after the first third of the history, once at the end
        pos = rng.randint(len(ops) // 3, len(ops))
        # `mutate` operations refer to operation indices: shift them
        ops = [dict(o, of=o['of'] + 1)
               if o['op'] == 'mutate' and o['of'] >= pos else o
               for o in ops]
        ops.insert(pos, {'op': 'call', 'q': dict(q)})
        ops.append({'op': 'call', 'q': dict(q)})
    out['formulas'] = formulas
    out['ops'] = ops
    return out


def _violates(plan, cls, timeout):
    st, res = run_isolated(execute, plan, timeout)
    return st == 'ok' and res['violation'] is not None and \
        res['violation']['class'] == cls, (res if st == 'ok' else None)


def minimise_plan(plan, cls, timeout):
    """ddmin over the operation list; `mutate` ops keep pointing at the same
    call because removed operations are replaced by no-ops first."""
    from .minimise import ddmin
    ops = plan['ops']
    idx = list(range(len(ops)))

    def mk(keep):
        ks = set(keep)
        p = dict(plan)
        p['ops'] = [ops[i] if i in ks else {'op': 'nop'}
                    for i in range(len(ops))]
        return p

    def test(keep):
        return _violates(mk(keep), cls, timeout)[0]

    keep = ddmin(idx, test, max_tests=150)
    p = mk(keep)
    # drop fault annotations that are not needed
    for i in keep:
        for ann in ('fault', 'nest'):
            if ann in p['ops'][i]:
                q = dict(p)
                q['ops'] = list(p['ops'])
                o = dict(q['ops'][i])
                del o[ann]
                q['ops'][i] = o
                if _violates(q, cls, timeout)[0]:
                    p = q
    return p


def replay(body, timeout=900):
    ok, r = _violates(body['plan'], body['violation']['class'], timeout)
    return ok, r
