"""C06 - answers are independent of presentation order, naming and hash seed.

Stage 1 (in-process, seam S1 + presentations S3): one run = one case
(abstract structure, logic, formula, optional fairness) evaluated under a
baseline (canonical presentation, no seam) and k perturbed executions.  A
divergence between two executions *without* the seam is two real inputs and
is reported directly; a divergence that needs the seam is a candidate that
must be certified by real, unpatched interpreters before it is reported.

Stage 2 (real nondeterminism, S2): batches of cases with string states are
evaluated by fresh unpatched interpreters under different PYTHONHASHSEEDs.
"""

import json
import os
import random
import subprocess
import sys

from . import core, gen
from .runner import run_isolated

PLAIN = os.path.join(os.path.dirname(os.path.abspath(__file__)),
                     'plainworker.py')


# ---------------------------------------------------------------------------
# concrete arguments from (case, presentation)

def identity_presentation(case):
    n = case['K']['n']
    return {'smap': [{'i': k} for k in range(n)],
            'S': list(range(n)), 'S_given': True,
            'R': list(range(len(case['K']['E']))),
            'L': list(range(n)), 'lab_rot': 0,
            'amap': {}, 'pad': None, 'S0': [], 'seam': False,
            'sched': 'identity'}


def concretise(case, pres):
    """Returns (S, S0, R, L, formula tree, F, index_of) with decoded values;
    index_of maps a state object to its abstract index."""
    K = case['K']
    n = K['n']
    pad = pres.get('pad')
    tot = n + (pad['n'] if pad else 0)
    core.reset_objects()
    vals = [core.dec_value(e) for e in pres['smap'][:tot]]
    if pres.get('fresh'):
        # every occurrence of a state is an equal but distinct object (names
        # computed per use, as with (q, s) pairs or 's%d' % i), except for
        # identity-compared states
        shared = vals

        class _Fresh(object):
            def __getitem__(self, i):
                return core.fresh_copy(shared[i])

            def __iter__(self):
                return (core.fresh_copy(v) for v in shared)

            def __len__(self):
                return len(shared)
        vals = _Fresh()
    edges = [list(e) for e in K['E']] + (pad['E'] if pad else [])
    labs = [list(l) for l in K['lab']] + (pad['lab'] if pad else [])
    amap = pres.get('amap') or {}
    S = [vals[i] for i in pres['S']] if pres.get('S_given', True) else None
    R = [(vals[edges[k][0]], vals[edges[k][1]]) for k in pres['R']]
    L = {}
    rot = pres.get('lab_rot', 0)
    for i in pres['L']:
        names = [amap.get(a, a) for a in labs[i]]
        if names and rot:
            r = rot % len(names)
            names = names[r:] + names[:r]
        L[vals[i]] = names
    # the initial states belong to the structure, not to its presentation:
    # they come from the case (mapped through the bijection), and only their
    # order and container type vary
    s0 = list(case.get('S0') or [])
    if pres.get('S0rot') and s0:
        r0 = pres['S0rot'] % len(s0)
        s0 = s0[r0:] + s0[:r0]
    S0 = [vals[i] for i in s0]
    # the same collections in other container types (the constructor takes
    # "a collection"): tuple, set, frozenset, dict keys, one-shot iterator
    ct = pres.get('ctype') or {}

    def cast(x, kind):
        if x is None or kind in (None, 'list'):
            return x
        if kind == 'tuple':
            return tuple(x)
        if kind == 'set':
            return set(x)
        if kind == 'frozenset':
            return frozenset(x)
        if kind == 'keys':
            return dict.fromkeys(x).keys()
        if kind == 'iter':
            return iter(list(x))
        return x
    S = cast(S, ct.get('S'))
    R = cast(R, ct.get('R'))
    S0 = cast(S0, ct.get('S0'))
    if ct.get('lab'):
        L = dict((k, cast(v, ct['lab'])) for k, v in L.items())
    if pres.get('lab_share'):
        # states with equal labellings share ONE container object, as with
        # dict.fromkeys(S, {'p'}) or busy = {'p'}; L = {0: busy, 1: busy}
        pool_ = {}
        for k in list(L):
            key = core.cjson(sorted(str(x) for x in L[k]))
            if key in pool_:
                L[k] = pool_[key]
            else:
                pool_[key] = L[k]
    tree = core.rename_atoms(case['f'], amap)
    F = None
    if case.get('F') is not None:
        # the fairness constraints name states, so they go through the
        # bijection like everything else; their order and container types
        # are part of the presentation too (a set of frozensets is iterated
        # in hash order, i.e. in an order the hash seed decides)
        fidx = pres.get('Fperm')
        if fidx is None:
            fidx = list(range(len(case['F'])))
        outer = pres.get('Fct') or 'list'
        inner = frozenset if (pres.get('Fin') == 'frozenset' or
                              outer in ('set', 'frozenset')) else set
        F = []
        for j in fidx:
            P = list(case['F'][j])
            fr = pres.get('Frot', 0)
            if P and fr:
                P = P[fr % len(P):] + P[:fr % len(P)]
            F.append(inner(vals[i] for i in P))
        F = cast(F, outer)
    index_of = {}
    for i, v in enumerate(vals):
        index_of[v] = i
    return S, S0, R, L, tree, F, index_of


def evaluate(case, pres, want_fair=False):
    """One execution; returns canonical outcome ['ok', [indices]] or
    ['raise', name]; restricted to the original states."""
    from pyModelChecking import Kripke
    n = case['K']['n']
    S, S0, R, L, tree, F, index_of = concretise(case, pres)
    out = {}
    try:
        K = Kripke(S, S0, R, L)
        f = core.build_formula(tree, case['logic'],
                               bool(case.get('raw_leaves')))
        mc = core.lang_module(case['logic']).modelcheck
        if F is None:
            res = mc(K, f)
        else:
            res = mc(K, f, F=F)
        idx = []
        alien = 0
        members = list(set.__iter__(res)) if isinstance(res, set) \
            else list(res)
        for s in members:
            try:
                i = index_of.get(s)
            except TypeError:
                i = None
            if i is None:
                alien += 1
            elif i < n:
                idx.append(i)
        if not isinstance(res, set):
            out['o'] = ['nonset', type(res).__name__]
        elif alien:
            out['o'] = ['alien', alien, sorted(idx)]
        else:
            out['o'] = ['ok', sorted(idx)]
        if want_fair and F is not None:
            fs = K.get_fair_states(F)
            out['fair'] = sorted(index_of[s] for s in set.__iter__(set(fs))
                                 if index_of[s] < n)
    except Exception as e:
        out['o'] = ['raise', type(e).__name__]
    return out


# ---------------------------------------------------------------------------
# generation

def gen_case(rng, cfg):
    logic = cfg['logic']
    atoms = gen.ATOM_POOL[:cfg['natoms']]
    nmax = cfg['nmax']
    shape = cfg['shape']
    if cfg['fair'] and cfg.get('fairfriendly'):
        shape = 'fairfriendly'
    K = gen.gen_abstract_kripke(rng, nmax, atoms, cfg['density'], shape)
    f = gen.gen_formula(rng, logic, atoms, cfg['depth'], cfg['tmax'],
                        cfg.get('pconst', 0.12))
    F = None
    if cfg['fair']:
        F = gen.gen_fairness(rng, K['n'])
        if cfg['uniform_loops']:
            K['E'] = gen.uniformise_selfloops(rng, K['n'], K['E'])
    S0 = sorted(rng.sample(range(K['n']), rng.randint(0, K['n']))) \
        if rng.random() < 0.4 else []
    # how the formula object is built is part of the case (the same in every
    # execution): leaves as AtomicProposition/Bool objects, or as plain
    # str/bool handed to the operator constructors
    return {'K': K, 'logic': logic, 'f': f, 'F': F, 'S0': S0,
            'raw_leaves': rng.random() < 0.3}


def gen_presentation(rng, case, cfg):
    K = case['K']
    n = K['n']
    kinds = cfg['kinds']
    pres = identity_presentation(case)
    pad = None
    if 'pad' in kinds and rng.random() < 0.5:
        k = rng.randint(1, 2)
        E = []
        for i in range(n, n + k):
            E.append([i, rng.randrange(n + k)])
            if rng.random() < 0.5:
                E.append([i, rng.randrange(n)])
            if rng.random() < 0.3:
                E.append([i, rng.randrange(n, n + k)])
        atoms = gen.ATOM_POOL[:cfg['natoms']]
        lab = [[a for a in atoms if rng.random() < 0.5] for _ in range(k)]
        pad = {'n': k, 'E': E, 'lab': lab}
    tot = n + (pad['n'] if pad else 0)
    ne = len(K['E']) + (len(pad['E']) if pad else 0)
    pres['pad'] = pad
    if 'bijection' in kinds and rng.random() < 0.7:
        fam = rng.choice(cfg['families'])
        pres['smap'] = gen.state_family(rng, tot, fam)
        pres['family'] = fam
    else:
        pres['smap'] = [{'i': k} for k in range(tot)]
    S = list(range(tot))
    R = list(range(ne))
    Lo = list(range(tot))
    if 'order' in kinds:
        rng.shuffle(S)
        rng.shuffle(R)
        rng.shuffle(Lo)
        pres['lab_rot'] = rng.randrange(3)
        pres['S0rot'] = rng.randrange(4)
    pres['S'], pres['R'], pres['L'] = S, R, Lo
    if 'ctype' in kinds and rng.random() < 0.5:
        pres['ctype'] = {
            # collections only: a one-shot iterator is not a collection,
            # and a correct constructor may well iterate its arguments twice
            'S': rng.choice(['list', 'tuple', 'set', 'keys']),
            'R': rng.choice(['list', 'tuple', 'set']),
            'S0': rng.choice(['list', 'set', 'tuple']),
            'lab': rng.choice(['list', 'tuple', 'set', 'frozenset'])}
    if case.get('F') is not None:
        if 'order' in kinds:
            fp = list(range(len(case['F'])))
            rng.shuffle(fp)
            pres['Fperm'] = fp
            pres['Frot'] = rng.randrange(3)
        if 'ctype' in kinds:
            pres['Fct'] = rng.choice(['list', 'tuple', 'set', 'frozenset'])
            pres['Fin'] = rng.choice(['set', 'frozenset'])
    if 'bijection' in kinds and rng.random() < 0.4:
        pres['fresh'] = True
    if ('ctype' in kinds or 'order' in kinds) and rng.random() < 0.3:
        # shared label containers only matter when they are sets (any other
        # collection has to be converted by the constructor anyway)
        pres['lab_share'] = True
        pres['ctype'] = dict(pres.get('ctype') or {}, lab='set')
    if 'atoms' in kinds and rng.random() < 0.6:
        atoms = gen.ATOM_POOL[:cfg['natoms']]
        pres['amap'] = gen.rename_map(rng, atoms)
    if 'schedule' in kinds and rng.random() < 0.75:
        pres['seam'] = True
        pres['sched'] = 'random'
        pres['sched_seed'] = rng.getrandbits(48)
    return pres


def gen_plan(seed, logic_mix):
    rng = random.Random(seed)
    logic = logic_mix[rng.randrange(len(logic_mix))]
    kinds = ['schedule']
    for k in ['bijection', 'order', 'atoms', 'pad', 'ctype']:
        if rng.random() < 0.6:
            kinds.append(k)
    fair = logic != 'LTL' and rng.random() < 0.25
    cfg = {
        'logic': logic,
        'natoms': rng.choice([2, 2, 3]),
        'nmax': {'LTL': rng.choice([4, 4, 4, 5]),
                 'CTLS': rng.choice([5, 5, 5, 6]),
                 'CTL': rng.choice([5, 5, 5, 6, 7, 8])}[logic],
        'density': rng.choice([0.2, 0.5, 0.8]),
        'shape': rng.choice(gen.SHAPES),
        'depth': rng.choice([1, 2, 3, 3, 4, 5]) if logic == 'CTL'
        else rng.choice([1, 2, 2, 3]),
        'tmax': rng.choice([1, 2, 2, 3]),
        'pconst': rng.choice([0.05, 0.12, 0.3]),
        'fair': fair,
        'uniform_loops': rng.random() < 0.5,
        'fairfriendly': rng.random() < 0.5,
        'kinds': kinds,
        'families': rng.sample(gen.FAMILIES, 3),
        'k': 6,
    }
    case = gen_case(rng, cfg)
    execs = [gen_presentation(rng, case, cfg) for _ in range(cfg['k'])]
    return {'prop': 'C06', 'cfg': cfg, 'case': case, 'execs': execs}


# ---------------------------------------------------------------------------
# stage-1 execution (isolated child)

def execute(plan):
    """Baseline + perturbed executions of one case.  Returns outcomes and
    the decision logs of the seam executions."""
    from . import simset
    core.assert_repo_import()
    case = plan['case']
    want_fair = case.get('F') is not None
    outs = []
    base = evaluate(case, identity_presentation(case), want_fair)
    sites = {}
    nonid = 0
    probes = {}
    for pres in plan['execs']:
        sched = None
        if pres.get('seam'):
            if pres['sched'] == 'random':
                sched = core.Scheduler(random.Random(pres['sched_seed']),
                                       'random')
            elif pres['sched'] == 'replay':
                sched = core.Scheduler(None, 'replay', pres['log'],
                                       strict=pres.get('strict', False))
            else:
                sched = core.Scheduler(None, 'identity')
            simset.install(sched)
        try:
            o = evaluate(case, pres, want_fair)
        finally:
            if pres.get('seam'):
                simset.uninstall()
        rec = {'o': o['o'], 'fair': o.get('fair')}
        if sched is not None:
            rec['log'] = sched.log
            rec['nonid'] = sched.nonidentity
            nonid += sched.nonidentity
            for s, c in sched.sites.items():
                sites[s] = sites.get(s, 0) + c
            if any(s.startswith('LTL/model_checking.py') and p is not None
                   for s, _, p in sched.log):
                probes['ltl_closure_or_tableau_order_permuted'] = 1
            if any(s.startswith('graph.py') and p is not None
                   for s, _, p in sched.log):
                probes['graph_successor_or_scc_order_permuted'] = 1
        outs.append(rec)
    return {'base': base, 'outs': outs, 'sites': sites, 'nonid': nonid,
            'probes': probes}


def diverges(base, rec):
    return base['o'] != rec['o']


# ---------------------------------------------------------------------------
# real interpreters (S2) - used for stage 2 and to certify stage-1 candidates

def run_plain(cases, hashseed, timeout=600):
    """Evaluate [(case, pres)...] in a fresh unpatched interpreter."""
    env = dict(os.environ)
    env['PYTHONHASHSEED'] = str(hashseed)
    env['PYTHONDONTWRITEBYTECODE'] = '1'
    env['VERIF_REPO'] = core.REPO
    for k in ('SIMCHECK_PINNED',):
        env.pop(k, None)
    p = subprocess.run([sys.executable, PLAIN], input=json.dumps(cases),
                       capture_output=True, text=True, env=env,
                       timeout=timeout)
    if p.returncode != 0:
        raise core.HarnessError('plainworker failed: ' + p.stderr[-2000:])
    return json.loads(p.stdout)


def string_presentation(case, rng=None, amap=None):
    pres = identity_presentation(case)
    n = case['K']['n']
    if rng is None:
        pres['smap'] = [{'s': 's{}'.format(k)} for k in range(n)]
    else:
        pres['smap'] = gen.state_family(rng, n, rng.choice(['str', 'words']))
    if amap:
        pres['amap'] = amap
    return pres


# ---------------------------------------------------------------------------
# known finding KF1

def kf1_applies(case, fair_a=None, fair_b=None):
    """A divergence on this case is attributed to known finding KF1 iff
    fairness constraints are given and the structure satisfies the trigger
    predicate.  (The fair-state sets computed by a second call are recorded
    for the reader but not used: under the seam a second call may be
    scheduled differently from the one made inside modelcheck.)"""
    if case.get('F') is None:
        return False
    K = case['K']
    return gen.kf1_trigger(K['n'], K['E'], case['F'])


def replay(body, timeout=600):
    """Re-run a replay file; returns (reproduced, result)."""
    cert = body['certificate']
    case = body['case']
    if cert['mode'] == 'presentation':
        def fn(_):
            a = evaluate(case, cert['a'])
            b = evaluate(case, cert['b'])
            return [a['o'], b['o']]
        st, r = run_isolated(fn, None, timeout)
        if st != 'ok':
            raise core.HarnessError('replay child: {} {}'.format(st, r))
        ok = r[0] != r[1]
        return ok, {'violation': {'class': body['violation']['class'],
                                  'detail': 'presentation a -> {}; '
                                  'presentation b -> {}'.format(*r)}}
    if cert['mode'] == 'hashseed':
        ra = run_plain([[case, cert['pres']]], cert['a'])[0]
        rb = run_plain([[case, cert['pres']]], cert['b'])[0]
        ok = ra != rb
        return ok, {'violation': {'class': body['violation']['class'],
                                  'detail': 'PYTHONHASHSEED={} -> {}; '
                                  'PYTHONHASHSEED={} -> {}'.format(
                                      cert['a'], ra, cert['b'], rb)}}
    raise core.HarnessError('unknown certificate mode')
