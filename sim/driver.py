"""Generic driver: runs N simulated runs of one check over the dispatcher
pool, aggregates what they covered, writes the evidence file, prints
VIOLATION / KNOWN-FINDING lines and decides the exit code."""

import json
import os
import sys
import time

from . import core
from .runner import parallel_jobs, run_isolated

# VERIF_SCRATCH_OUT redirects evidence and replay files (used when the checks
# are pointed at a scratch copy of the repository, e.g. a seeded mutant, so
# that the committed evidence is never overwritten by such a run).
_SCRATCH = os.environ.get('VERIF_SCRATCH_OUT')
OUT = _SCRATCH or os.path.join(core.VERIF, 'out')
REPLAYS = os.path.join(OUT, 'replays')
EVIDENCE = os.path.join(_SCRATCH, 'evidence') if _SCRATCH else \
    os.path.join(core.VERIF, 'evidence')


def merge_counts(dst, src):
    for k, v in (src or {}).items():
        dst[k] = dst.get(k, 0) + v


def write_replay(prop, verif_seed, tier, i, body):
    os.makedirs(REPLAYS, exist_ok=True)
    path = os.path.join(REPLAYS, '{}-{}-{}-{}.json'.format(
        prop, verif_seed, tier, i))
    with open(path, 'w') as f:
        json.dump(body, f, indent=1, sort_keys=True)
    return path


def cli_replay_reproduces(path, timeout=600):
    """Replay a file the way a user would: a fresh interpreter started
    through simcheck.py (same VERIF_REPO).  True iff it ends in VIOLATION."""
    import subprocess
    env = dict(os.environ)
    env.pop('SIMCHECK_PINNED', None)
    try:
        p = subprocess.run([sys.executable,
                            os.path.join(core.VERIF, 'simcheck.py'),
                            'replay', path], capture_output=True, text=True,
                           env=env, timeout=timeout)
    except Exception:
        return False
    return p.returncode == 1 and 'VIOLATION property=' in p.stdout


class Aggregate(object):
    def __init__(self):
        self.evaluations = 0
        self.steps = 0
        self.probes = {}
        self.faults = {}
        self.sites = {}
        self.extra = {}
        self.nontrivial_digests = set()
        self.all_digests = set()
        self.samples = {}
        self.violations = []
        self.extension = []
        self.known = []
        self.harness_errors = []
        self.timeouts = 0
        self.notes = {}
        self.sets = {}

    def add(self, i, res):
        st = res.get('status')
        if st == 'harness_error':
            self.harness_errors.append([i, res.get('detail', '')[-2000:]])
            return
        if st == 'timeout':
            self.timeouts += 1
            return
        self.evaluations += res.get('evaluations', 1)
        self.steps += res.get('steps', 0)
        merge_counts(self.probes, res.get('probes'))
        merge_counts(self.faults, res.get('faults'))
        merge_counts(self.sites, res.get('sites'))
        merge_counts(self.extra, res.get('extra'))
        for k, items in (res.get('sets') or {}).items():
            self.sets.setdefault(k, set()).update(items)
        for d in res.get('digests', []):
            self.all_digests.add(d)
        for d in res.get('nontrivial_digests', []):
            self.nontrivial_digests.add(d)
        if 'sample' in res:
            self.samples[i] = res['sample']
        for v in res.get('violations', []):
            self.violations.append([i, v])
        for v in res.get('extension', []):
            self.extension.append([i, v])
        for k in res.get('known', []):
            self.known.append([i, k])
        for k, v in (res.get('notes') or {}).items():
            self.notes.setdefault(k, [])
            if len(self.notes[k]) < 20:
                self.notes[k].append([i, v])


def drive(prop, tier, verif_seed, n_runs, workers, job, rule, level_text,
          assumptions, components, wall_cap=None, pre_lines=None,
          extra_coverage=None, min_ok_fraction=0.98):
    """job(i) -> result dict (see Aggregate.add).  Returns the exit code."""
    t0 = time.time()
    agg = Aggregate()
    print('VERIF_SEED={} property={} tier={} runs={} workers={}'.format(
        verif_seed, prop, tier, n_runs, workers))
    sys.stdout.flush()
    for line in (pre_lines or []):
        print(line)
    done, dead = parallel_jobs(job, n_runs, workers, agg.add,
                               wall_cap=wall_cap)
    wall = time.time() - t0
    exit_code = 0
    seen = set()
    def vkey(x):
        # files confirmed in a fresh interpreter first, then by run index
        c = x[1].get('fresh_interpreter_replay')
        return (0 if c is True or c is None and 'fresh_interpreter_replay'
                not in x[1] else 1 if c is None else 2, str(x[0]).zfill(9))
    for i, v in sorted(agg.violations, key=vkey):
        print('VIOLATION property={} replay={}'.format(prop, v['replay']))
        print('  run={} class={} {}'.format(i, v.get('class'),
                                            v.get('detail', '')[:400]))
        exit_code = 1
    for i, v in sorted(agg.extension, key=lambda x: x[0])[:10]:
        print('EXTENSION-FINDING property={} (outside the statement\'s '
              'quantifier, exit code unaffected) replay={}'.format(
                  prop, v['replay']))
        print('  run={} class={} {}'.format(i, v.get('class'),
                                            v.get('detail', '')[:300]))
    for i, k in sorted(agg.known, key=lambda x: x[0]):
        if k['id'] not in seen:
            seen.add(k['id'])
    if dead:
        agg.harness_errors.append([-1, 'dispatcher died: {}'.format(dead)])
    incomplete = n_runs - done
    bad = len(agg.harness_errors) + agg.timeouts
    if agg.harness_errors:
        for i, d in agg.harness_errors[:5]:
            print('HARNESS-ERROR run={} {}'.format(i, d))
    if agg.timeouts:
        print('NOTE {} run(s) hit the wall-clock kill and explored nothing'
              .format(agg.timeouts))
    if incomplete and wall_cap is not None:
        print('NOTE wall cap reached: {} of {} runs executed'.format(
            done, n_runs))
    if exit_code == 0 and (agg.harness_errors or
                           agg.evaluations == 0 or
                           bad > (1 - min_ok_fraction) * max(1, done)):
        exit_code = 2
    zero = [k for k, v in sorted(agg.probes.items()) if v == 0]
    for k in zero:
        print('WARNING probe {} stayed at zero'.format(k))
    cov = {
        'evaluations': agg.evaluations,
        'distinct_nontrivial': len(agg.nontrivial_digests),
        'rule': rule,
        'samples': [agg.samples[k] for k in sorted(agg.samples)][:4],
        'runs': done,
        'steps': agg.steps,
        'distinct_outcome_digests': len(agg.all_digests),
        'runs_per_hour': int(done / max(wall, 1e-6) * 3600),
        'steps_per_hour': int(agg.steps / max(wall, 1e-6) * 3600),
        'seeds': {'VERIF_SEED': verif_seed,
                  'derivation': 'sha256(VERIF_SEED/prop/tier/i)[:16]',
                  'run_indices': [0, n_runs - 1]},
        'simulated_time': {'value': 0,
                           'reason': 'the library has no clock, timer or '
                                     'deadline; progress is counted in '
                                     'operations and scheduler decisions'},
        'fault_kinds_fired': agg.faults,
        'decision_sites': agg.sites,
        'probes': agg.probes,
        'components': components,
        'timeouts': agg.timeouts,
        'harness_errors': len(agg.harness_errors),
        'known_findings_hit': sorted(set(k['id'] for _, k in agg.known)),
        'known_findings_hits': len(agg.known),
        'extension_findings': len(agg.extension),
        'workers': workers,
    }
    cov.update(agg.extra and {'counters': agg.extra} or {})
    if agg.notes:
        cov['notes'] = agg.notes
    if agg.sets:
        cov['distinct'] = dict((k, len(v)) for k, v in sorted(agg.sets.items()))
    if extra_coverage:
        cov.update(extra_coverage)
    ev = {
        'property_id': prop,
        'tier': tier,
        'seed': verif_seed,
        'level': 'exploration',
        'coverage': cov,
        'assumptions': assumptions,
        'wall_s': round(wall, 2),
        'violations': len(agg.violations),
    }
    os.makedirs(EVIDENCE, exist_ok=True)
    tmp = os.path.join(EVIDENCE, prop + '.json.tmp')
    with open(tmp, 'w') as f:
        json.dump(ev, f, indent=1, sort_keys=True)
    os.replace(tmp, os.path.join(EVIDENCE, prop + '.json'))
    print('SUMMARY property={} runs={} evaluations={} distinct_nontrivial={} '
          'violations={} known_hits={} timeouts={} wall={:.1f}s exit={}'
          .format(prop, done, agg.evaluations, len(agg.nontrivial_digests),
                  len(agg.violations), len(agg.known), agg.timeouts, wall,
                  exit_code))
    return exit_code, agg
