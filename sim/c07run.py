"""Driver for C07 (both configurations) and C19 on the call-history machine."""

import os

from . import c07, core
from .driver import drive, write_replay
from .runner import run_isolated

RUNS = {'C07': {'quick': 900, 'thorough': 60000},
        'C19': {'quick': 1400, 'thorough': 60000}}

RULE = {
    'C07': (
        'One evaluation = one simulated history: a pool of 3-5 Kripke '
        'structures (<=4 states; int, string, tuple, float, object and mixed '
        'state types), 2-12 formula objects and texts over CTL / LTL / CTL* '
        '(plus queries that must be rejected with TypeError), 0-3 fairness '
        'lists per structure (including re-partitions of one union) and '
        'shared parsers, text formulas with quoted atoms, optionally one '
        'large structure (32-45 states, CTL queries only) and formulas '
        'obtained by name feedback (atoms named like the names the library '
        'generated internally while answering the plan in an isolated '
        'child); then 10-70 scheduler-chosen operations: call, repeat, same '
        'formula on another structure, another formula under the same '
        'fairness list, an in-place edit of a structure by the caller '
        'through the public API (after which the reference is the pristine '
        'child that applied the same edits) and - in the '
        'fault-injecting configuration (run index = 1 mod 3) - calls cut '
        'short by SimAbort / MemoryError / RecursionError raised at a chosen '
        'line event inside repository code, or - in the interleaved-calls '
        'configuration (run index = 2 mod 3) - a complete second modelcheck '
        'call executed at a chosen line event inside the first one '
        '(cooperative pre-emption: the deterministic model of a signal '
        'handler, callback or second caller running between two lines of '
        'the first call); finally every distinct query is re-issued '
        'fault-free.  After every operation I1 (every pooled '
        'structure - states, transitions, every label set by value and by '
        'container identity, S0 - every formula object and fairness list '
        'equals its snapshot), I2 (a call in which no fault fired returns '
        'what the same call returns in a pristine forked child) and at the '
        'end I3 are checked.  NON-TRIVIAL: >=2 structures, >=1 query issued '
        'more than once and, in the fault configuration, >=1 fault that '
        'actually fired inside repository code.  DISTINCT = distinct sha256 '
        'of the event log (operation, canonical outcome).'),
    'C19': (
        'One evaluation = one simulated history on the same machine, '
        'fault-free, with heterogeneous state types (strings, tuples, nested '
        'tuples, floats, identity-hashed objects, mixed), labels that are not '
        'strings or look like syntax / generated fresh atoms / the fairness '
        'label, formulas with atoms absent from the structure or named like '
        'operators (object form), and the caller-side fault `mutate`: an '
        'earlier returned set is mutated (add junk, clear, discard, pop, add '
        'state, update) and the query is re-issued.  After every operation: '
        'K1 a well-formed query (formula of the called logic, F=None) does '
        'not raise; K2 the result is a set of states of the structure; K3 '
        'every set handed out earlier and not mutated by the simulator still '
        'holds its value; K4 = I1 + I2 of C07 (later calls equal the '
        'pristine outcome, structure equals its snapshot).  NON-TRIVIAL: >=1 '
        'mutate followed by a re-query (the final pass re-issues every '
        'query).  DISTINCT = distinct sha256 of the event log.'),
}

ASSUMPTIONS = {
    'C07': [
        'faults are raised at line events of Python frames under '
        '/repo/pyModelChecking (not inside C calls, not inside lark)',
        'the value returned by a call that swallowed an injected '
        'MemoryError/RecursionError is counted, not asserted',
        'the pristine child shares the interpreter image (hence hash seed) '
        'with the history, so I2 is independent of C06',
        'no concurrent callers are simulated (the library promises no thread '
        'safety and the statement speaks of interleaved calls)',
        'sampling, not enumeration',
    ],
    'C19': [
        'well-formed = total structure built by the constructor, formula '
        'built with the called logic\'s classes, F=None',
        'formulas with non-identifier atoms are passed as objects only',
        'sampling, not enumeration',
    ],
}

COMPONENTS = {'real': ['pyModelChecking (all modules)', 'lark'], 'stub': []}


CONFIGS = ['fault_free', 'fault_injecting', 'interleaved_calls']


def config_for(prop, i):
    """C07 cycles through three configurations that are run and reported
    separately; C19 is fault-free only."""
    return CONFIGS[i % 3] if prop == 'C07' else 'fault_free'


def plan_for(prop, seed, i):
    cfgname = config_for(prop, i)
    return c07.gen_plan(seed, prop, cfgname == 'fault_injecting',
                        cfgname == 'interleaved_calls')


def job(ctx, i):
    prop = ctx['prop']
    seed = core.run_seed(ctx['seed'], prop, ctx['tier'], i)
    plan = plan_for(prop, seed, i)
    if plan['cfg'].get('feedback'):
        st, ext = run_isolated(c07.materialise_feedback, plan,
                               ctx['timeout'])
        if st == 'ok':
            plan = ext
        elif st == 'timeout':
            return {'status': 'timeout'}
        else:
            return {'status': 'harness_error',
                    'detail': 'feedback: {} {}'.format(st, ext)}
    faults = plan['cfg']['faults']
    st, res = run_isolated(c07.execute, plan, ctx['timeout'])
    if st == 'timeout':
        return {'status': 'timeout'}
    if st != 'ok':
        return {'status': 'harness_error', 'detail': '{} {}'.format(st, res)}
    cfgname = config_for(prop, i)
    probes = dict(res['probes'])
    probes['config_' + cfgname] = 1
    if plan['cfg'].get('feedback_done'):
        probes['name_feedback_runs'] = 1
        if plan['cfg'].get('harvested'):
            probes['name_feedback_names_harvested'] = \
                len(plan['cfg']['harvested'])
    out = {'status': 'ok', 'evaluations': 1, 'steps': res['steps'],
           'probes': probes, 'faults': res['faults'],
           'extra': dict(res['counters'],
                         pristine_child_calls=res['pristine_calls']),
           'sets': {'fault sites (kind, function) that fired': [
               k for k in res['probes'] if k.startswith('fault_fired_in_')
               or k.startswith('nested_call_inside_')]},
           'digests': [res['events_digest']],
           'nontrivial_digests': [res['events_digest']]
           if res['nontrivial'] else []}
    if i < 2:
        out['sample'] = {'run': i, 'run_seed': seed, 'config': cfgname,
                         'plan': plan, 'last_events': res['tail']}
    v = res['violation']
    if v is not None:
        ctx['nviol'] = ctx.get('nviol', 0) + 1
        small = plan
        if ctx['nviol'] <= 2:
            small = c07.minimise_plan(plan, v['class'], ctx['timeout'])
        oks = 0
        detail = v['detail']
        for _ in range(2):
            ok, r = c07._violates(small, v['class'], ctx['timeout'])
            if ok:
                oks += 1
                detail = r['violation']['detail']
        if oks == 0:
            small = plan
            ok, r = c07._violates(small, v['class'], ctx['timeout'])
            oks = 1 if ok else 0
        body = {'format': 1, 'property': prop, 'verif_seed': ctx['seed'],
                'tier': ctx['tier'], 'run': i, 'run_seed': seed,
                'config': cfgname,
                'violation': {'class': v['class'], 'detail': detail},
                'plan': small,
                'ops_kept': sum(1 for o in small['ops']
                                if o['op'] != 'nop'),
                'original_ops': len(plan['ops']), 'replayed_ok': oks}
        # what does the violation need?  (an unminimised plan still carries
        # every annotation: strip them wholesale first)
        for ann in ('nest', 'fault'):
            if any(ann in o for o in small['ops']):
                stripped = dict(small)
                stripped['ops'] = [dict((k2, v2) for k2, v2 in o.items()
                                        if k2 != ann) for o in small['ops']]
                if c07._violates(stripped, v['class'], ctx['timeout'])[0]:
                    small = stripped
                    body['plan'] = small
        needs_nest = any('nest' in o for o in small['ops'])
        fault_ops = [k for k, o in enumerate(small['ops']) if 'fault' in o]
        window = None
        if fault_ops and not needs_nest:
            # A violation that needs an injected fault is reported only if
            # the window is wide: the fault is moved to 8 other positions
            # spread over the call, and at least 2 of them must violate too.
            # An implementation that changes its argument and restores it in
            # a `finally` can only be caught with the fault inside the few
            # lines of the restore itself - the statement (inputs, histories)
            # does not promise that.
            k = fault_ops[-1]
            window = 0
            for u in (0.06, 0.18, 0.3, 0.42, 0.54, 0.66, 0.78, 0.9):
                p2 = dict(small)
                p2['ops'] = list(small['ops'])
                o2 = dict(p2['ops'][k])
                o2['fault'] = {'kind': o2['fault']['kind'], 'u': u}
                p2['ops'][k] = o2
                if c07._violates(p2, v['class'], ctx['timeout'])[0]:
                    window += 1
            body['fault_window'] = '{} of 8 other positions of the same ' \
                'fault violate as well'.format(window)
        path = write_replay(prop, ctx['seed'], ctx['tier'], i, body)
        rec = {'class': v['class'], 'detail': detail, 'replay': path,
               'replayed_ok': oks}
        if needs_nest:
            # only the interleaved-calls configuration sees it: outside the
            # statement's quantifier (finite sequences of calls)
            out.setdefault('notes', {})['extension_finding'] = rec
            out.setdefault('extra', {})['extension_findings'] = 1
            out['extension'] = [rec]
        elif window is not None and window < 2:
            out.setdefault('notes', {})['narrow_fault_window'] = rec
            out.setdefault('extra', {})['narrow_fault_window_findings'] = 1
        else:
            out['violations'] = [rec]
    return out


def run(prop, tier, seed, runs, workers):
    n = runs or RUNS[prop][tier]
    ctx = {'prop': prop, 'seed': seed, 'tier': tier, 'timeout': 600.0}

    def job_(i):
        return job(ctx, i)

    code, agg = drive(prop, tier, seed, n, workers, job_, RULE[prop], '',
                      ASSUMPTIONS[prop], COMPONENTS,
                      wall_cap=(900 if tier == 'quick' else 8 * 3600))
    return code
