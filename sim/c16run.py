"""Tier configuration and evidence text for the C16 check."""

from . import c16
from .driver import drive

RUNS = {'quick': 6000, 'thorough': 150000}

RULE = (
    'One evaluation = one simulated history: 40-80 steps (180-300 in crowd '
    'mode, plus macro sequences) over a pool of OBDD slots (6, 10, or '
    'universe+20..40 in crowd mode) and 2 or 3 variable orderings of a '
    'universe of 4, 5, 6, 9, 12, 40, 80 or 120 variables, drawn from the run '
    'PRNG (swarm configuration per run: universe, variables per expression, '
    'expression depth, drop/deferred-drop/gc weights, mid-operation GC '
    'probability and mode (k-th line event, every k-th, j-th line inside a '
    'function chosen at run time), allocation churn, user errors whose '
    'exception objects are held for a while, left-operand reuse, ordering '
    'storms, crowd mode with an initial one-diagram-per-variable sweep).  '
    'The reference model is a sparse truth table per slot (essential support '
    '+ table over the support, normal form).  After every step: J1 (== <=> '
    'same root <=> same model function) for every pair of live slots with '
    'one ordering that involves the slot written by the step - for every '
    'pair when <=12 slots are live, every 25th step and at the end; J3 (no '
    'two live non-terminal nodes with one (var, low, high), none with low is '
    'high; gc.get_objects() scan every step, BDDNode.nodes() scan on full '
    'checks) and J4 (terminal singletons); J2 (the diagram evaluates to the '
    'model on every assignment of the support, a fixed sample of 66 '
    'assignments above 7 variables) is evaluated for the written slot and a '
    'mismatch is turned into a J1 witness against the parsed '
    'sum-of-products.  A history is NON-TRIVIAL when it contains >=1 '
    'combine, >=1 drop (either kind), >=1 collector run (between or inside '
    'operations) and >=1 pair of live slots that reached one function by '
    'different construction routes; DISTINCT = distinct sha256 digests of '
    'the event log (operation kind, written slot and its model function, '
    'equality results, live slot and node counts after every step).')

ASSUMPTIONS = [
    'CPython 3.12 reference counting + cyclic collector; automatic GC is '
    'disabled and every collection is issued by the simulator',
    'mid-operation collections land on line events of Python frames in '
    'BDD.py, OBDD.py and _weakrefset.py (not inside C calls)',
    'the sparse truth-table model (operations whose result would depend on '
    'more than 10 variables are skipped) and the diagram walker are '
    'trusted; expression depth <=3',
    'sampling, not enumeration: a clean batch is evidence, not proof',
]

COMPONENTS = {'real': ['pyModelChecking.BDD.BDD', 'pyModelChecking.BDD.OBDD',
                       'pyModelChecking.BDD.ordering', 'weakref / '
                       '_weakrefset (CPython)', 'gc (CPython, invoked by the '
                       'simulator)'],
              'stub': []}


def run(tier, seed, runs, workers):
    n = runs or RUNS[tier]
    ctx = {'seed': seed, 'tier': tier, 'timeout': 120.0}

    def job(i):
        return c16.job(ctx, i)

    code, agg = drive('C16', tier, seed, n, workers, job, RULE, '',
                      ASSUMPTIONS, COMPONENTS,
                      wall_cap=(600 if tier == 'quick' else 6 * 3600))
    return code
