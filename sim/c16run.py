"""Tier configuration and evidence text for the C16 check."""

from . import c16
from .driver import drive

RUNS = {'quick': 6000, 'thorough': 150000}

RULE = (
    'One evaluation = one simulated history: 40-80 steps (plus macro '
    'sequences) over a pool of 6 or 10 OBDD slots and 2 or 3 variable '
    'orderings of a universe of 4, 5 or 6 variables, drawn from the run PRNG '
    '(swarm configuration per run: universe, variables used, expression '
    'depth, drop/deferred-drop/gc weights, mid-operation GC probability and '
    'mode (k-th line event, every k-th, j-th line inside a chosen function), '
    'allocation churn, user errors whose exception objects are held for a '
    'while, left-operand reuse).  After every step J1 (== <=> same root <=> same '
    'model truth table, for every pair of live slots with one ordering), '
    'J3 (no two live non-terminal nodes with one (var, low, high), none with '
    'low is high; scanned through gc.get_objects() and BDDNode.nodes()) and '
    'J4 (terminal singletons) are checked; J2 (diagram evaluates to the model '
    'truth table on all 2**n assignments) is evaluated and a mismatch is '
    'turned into a J1 witness against the parsed sum-of-products.  A history '
    'is NON-TRIVIAL when it contains >=1 combine, >=1 drop (either kind), '
    '>=1 collector run (between or inside operations) and >=1 pair of live '
    'slots that reached one function by different construction routes; '
    'DISTINCT = distinct sha256 digests of the event log (operation kinds, '
    'per-slot model truth tables, equality matrix and live-node count after '
    'every step).')

ASSUMPTIONS = [
    'CPython 3.12 reference counting + cyclic collector; automatic GC is '
    'disabled and every collection is issued by the simulator',
    'mid-operation collections land on line events of Python frames in '
    'BDD.py, OBDD.py and _weakrefset.py (not inside C calls)',
    'the truth-table model (2**n-bit integers, n<=6) and the diagram walker '
    'are trusted; <=6 variables, expression depth <=3',
    'sampling, not enumeration: a clean batch is evidence, not proof',
]

COMPONENTS = {'real': ['pyModelChecking.BDD.BDD', 'pyModelChecking.BDD.OBDD',
                       'pyModelChecking.BDD.ordering', 'weakref / '
                       '_weakrefset (CPython)', 'gc (CPython, invoked by the '
                       'simulator)'],
              'stub': []}


def run(tier, seed, runs, workers):
    n = runs or RUNS[tier]
    ctx = {'seed': seed, 'tier': tier, 'timeout': 120.0}

    def job(i):
        return c16.job(ctx, i)

    code, agg = drive('C16', tier, seed, n, workers, job, RULE, '',
                      ASSUMPTIONS, COMPONENTS,
                      wall_cap=(600 if tier == 'quick' else 6 * 3600))
    return code
