"""Process isolation (S6) and the parallel driver.

run_isolated(fn, arg)   : fork, run fn(arg) in the child, return its JSON-able
                          result through a pipe; wall-clock kill -> 'timeout'.
parallel_jobs(job, n)   : fork W dispatcher processes; dispatcher w handles
                          items i = w, w+W, ...; each calls job(i) (which itself
                          uses run_isolated for everything that executes
                          library code) and streams results to the parent.

Dispatchers never execute library code, so every child forks from an image in
which pyModelChecking has been imported but never called.
"""

import json
import os
import select
import signal
import sys
import time
import traceback


def _read_all(fd, deadline):
    chunks = []
    while True:
        left = deadline - time.monotonic()
        if left <= 0:
            return None
        r, _, _ = select.select([fd], [], [], min(left, 1.0))
        if r:
            b = os.read(fd, 1 << 16)
            if not b:
                return b''.join(chunks)
            chunks.append(b)


def run_isolated(fn, arg, timeout=120.0):
    """Returns ('ok', result) | ('exc', text) | ('timeout', None) |
    ('crash', status)."""
    rfd, wfd = os.pipe()
    sys.stdout.flush()
    sys.stderr.flush()
    pid = os.fork()
    if pid == 0:
        code = 0
        try:
            os.close(rfd)
            # library code may print (CTLS error path); never onto our stdout
            dn = os.open(os.devnull, os.O_WRONLY)
            os.dup2(dn, 1)
            try:
                out = ('ok', fn(arg))
            except BaseException:
                out = ('exc', traceback.format_exc())
            data = json.dumps(out).encode()
            off = 0
            while off < len(data):
                off += os.write(wfd, data[off:off + (1 << 16)])
        except BaseException:
            code = 3
        finally:
            os._exit(code)
    os.close(wfd)
    data = _read_all(rfd, time.monotonic() + timeout)
    os.close(rfd)
    if data is None:
        try:
            os.kill(pid, signal.SIGKILL)
        except OSError:
            pass
        os.waitpid(pid, 0)
        return ('timeout', None)
    _, status = os.waitpid(pid, 0)
    if not data:
        return ('crash', status)
    try:
        kind, val = json.loads(data.decode())
    except ValueError:
        return ('crash', status)
    return (kind, val)


def parallel_jobs(job, n, workers, on_result, wall_cap=None):
    """Run job(i) for i in range(n) over `workers` dispatcher processes.

    on_result(i, result) is called in the parent in arrival order; callers
    must make anything they derive from results independent of that order.
    Returns the number of items completed (== n unless wall_cap hit or a
    dispatcher died)."""
    workers = max(1, min(workers, n))
    t0 = time.monotonic()
    procs = []
    sys.stdout.flush()
    sys.stderr.flush()
    for w in range(workers):
        rfd, wfd = os.pipe()
        pid = os.fork()
        if pid == 0:
            code = 0
            try:
                os.close(rfd)
                for p in procs:
                    os.close(p[1])
                out = os.fdopen(wfd, 'w')
                for i in range(w, n, workers):
                    if wall_cap is not None and \
                            time.monotonic() - t0 > wall_cap:
                        break
                    try:
                        res = job(i)
                    except BaseException:
                        res = {'status': 'harness_error',
                               'detail': traceback.format_exc()}
                    out.write(json.dumps([i, res]) + '\n')
                    out.flush()
                out.close()
            except BaseException:
                traceback.print_exc()
                code = 3
            finally:
                os._exit(code)
        os.close(wfd)
        procs.append((pid, rfd, bytearray()))
    done = 0
    open_fds = {p[1]: p for p in procs}
    while open_fds:
        r, _, _ = select.select(list(open_fds), [], [], 5.0)
        for fd in r:
            b = os.read(fd, 1 << 16)
            p = open_fds[fd]
            if not b:
                os.close(fd)
                del open_fds[fd]
                continue
            p[2].extend(b)
            while True:
                nl = p[2].find(b'\n')
                if nl < 0:
                    break
                line = bytes(p[2][:nl])
                del p[2][:nl + 1]
                i, res = json.loads(line.decode())
                on_result(i, res)
                done += 1
    dead = []
    for pid, _, _ in procs:
        _, status = os.waitpid(pid, 0)
        if status != 0:
            dead.append(status)
    return done, dead
